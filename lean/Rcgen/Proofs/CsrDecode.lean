import Rcgen.Proofs.CertDecode
import Rcgen.Model.Csr
/-
  Typed decode of a whole certificationRequestInfo.  Two things are new with respect to
  certificates: caller-supplied attribute values are embedded as raw DER (so the generic round
  trip is applied to a raw-free tree with the same encoding), and the attributes are a SET OF,
  written in sorted order (so the decoded list is a permutation of the requested one).
-/
namespace Rcgen.Proofs.CsrDecode
open Rcgen Rcgen.Model Rcgen.Spec Rcgen.Proofs.Leaf Rcgen.Proofs.X509 Rcgen.Proofs.CertDecode

/-! ### raw nodes: a raw-free tree with the same encoding -/

mutual
/-- `Resolves t t'`: `t'` is `t` with every raw node replaced by a tree that encodes to it -/
inductive Resolves : Asn1 → Asn1 → Prop
  | prim (c n : Nat) (b : Bytes) : Resolves (.prim c n b) (.prim c n b)
  | cons (c n : Nat) (ks ks' : List Asn1) : ResolvesList ks ks' → Resolves (.cons c n ks) (.cons c n ks')
  | raw (b : Bytes) (t : Asn1) : encode t = b → Resolves (.raw b) t
inductive ResolvesList : List Asn1 → List Asn1 → Prop
  | nil : ResolvesList [] []
  | cons (t t' : Asn1) (ts ts' : List Asn1) : Resolves t t' → ResolvesList ts ts' →
      ResolvesList (t :: ts) (t' :: ts')
end

mutual
theorem Resolves.encode_eq {t t' : Asn1} (h : Resolves t t') : encode t = encode t' := by
  cases h with
  | prim c n b => rfl
  | cons c n ks ks' hk =>
    have := ResolvesList.encodeList_eq hk
    simp only [encode, this]
  | raw b t ht => simp only [encode, ht]
theorem ResolvesList.encodeList_eq {ts ts' : List Asn1} (h : ResolvesList ts ts') :
    encodeList ts = encodeList ts' := by
  cases h with
  | nil => rfl
  | cons t t' ts ts' h1 h2 =>
    simp only [encodeList, Resolves.encode_eq h1, ResolvesList.encodeList_eq h2]
end

mutual
theorem resolves_refl (t : Asn1) (h : tagsOk t = true) : Resolves t t := by
  match t with
  | .prim c n b => exact .prim c n b
  | .cons c n ks =>
    simp only [tagsOk, Bool.and_eq_true] at h
    exact .cons c n ks ks (resolvesList_refl ks h.2)
  | .raw b => simp [tagsOk] at h
theorem resolvesList_refl (ts : List Asn1) (h : tagsOkList ts = true) : ResolvesList ts ts := by
  match ts with
  | [] => exact .nil
  | t :: ts =>
    simp only [tagsOkList, Bool.and_eq_true] at h
    exact .cons t t ts ts (resolves_refl t h.1) (resolvesList_refl ts h.2)
end

/-- strict decoding of the encoding of `t` returns any well-formed resolution of `t` -/
theorem decodeAll_resolves {t t' : Asn1} (h : Resolves t t') (hw : t'.WF) :
    decodeAll (encode t) = some t' := by
  rw [h.encode_eq]; exact decodeAll_encode t' hw

/-! ### attributes -/

/-- resolve the raw value of a caller attribute with `f` -/
def resAttr (f : Bytes → Asn1) : Asn1 → Asn1
  | .cons 0 16 [o, .raw b] => .cons 0 16 [o, f b]
  | x => x

/-- what an RFC 2986 reader obtains from an attribute node: the type and the value bytes -/
def semAttr : Asn1 → CsrAttr
  | .cons 0 16 [o, v] => ⟨(asOid o).getD [], encode v⟩
  | _ => ⟨[], []⟩

/-- the witness that each caller-supplied value is the DER encoding of a SET -/
structure ValuesAreDer (attrs : List Attribute) (vals : Attribute → Asn1) : Prop where
  shape : ∀ a ∈ attrs, ∃ k, vals a = .cons 0 17 k
  tags : ∀ a ∈ attrs, tagsOk (vals a) = true
  enc : ∀ a ∈ attrs, encode (vals a) = a.values

/-- look a value up by its bytes -/
def byBytes (attrs : List Attribute) (vals : Attribute → Asn1) (b : Bytes) : Asn1 :=
  match attrs.find? (fun a => a.values == b) with
  | some a => vals a
  | none => .raw b

theorem byBytes_spec (attrs : List Attribute) (vals : Attribute → Asn1)
    (h : ValuesAreDer attrs vals) (a : Attribute) (ha : a ∈ attrs) :
    ∃ a' ∈ attrs, byBytes attrs vals a.values = vals a' ∧ a'.values = a.values := by
  unfold byBytes
  cases hf : attrs.find? (fun x => x.values == a.values) with
  | none =>
    have := List.find?_eq_none.1 hf a ha
    simp at this
  | some a' =>
    have hm := List.mem_of_find?_eq_some hf
    have hp := List.find?_some hf
    exact ⟨a', hm, rfl, by simpa using hp⟩

theorem resolves_attrNode (attrs : List Attribute) (vals : Attribute → Asn1)
    (h : ValuesAreDer attrs vals) (a : Attribute) (ha : a ∈ attrs) :
    Resolves (attrNode a) (resAttr (byBytes attrs vals) (attrNode a)) := by
  obtain ⟨a', ha', hb, hv⟩ := byBytes_spec attrs vals h a ha
  simp only [attrNode, Asn1.seq, resAttr, hb]
  refine .cons _ _ _ _ (.cons _ _ _ _ (.prim _ _ _) (.cons _ _ _ _ (.raw _ _ ?_) .nil))
  rw [h.enc a' ha', hv]

theorem decode_resAttr_attrNode (attrs : List Attribute) (vals : Attribute → Asn1)
    (h : ValuesAreDer attrs vals) (a : Attribute) (ha : a ∈ attrs) (ho : oidOk a.oid = true) :
    decodeCsrAttr (resAttr (byBytes attrs vals) (attrNode a)) = some ⟨a.oid, a.values⟩ := by
  obtain ⟨a', ha', hb, hv⟩ := byBytes_spec attrs vals h a ha
  obtain ⟨k, hk⟩ := h.shape a' ha'
  have he := h.enc a' ha'
  have hoid := asOid_oid a.oid ho
  simp only [attrNode, Asn1.seq, resAttr, hb, hk, decodeCsrAttr, hoid]
  rw [← hk, he, hv]

theorem tagsOk_resAttr_attrNode (attrs : List Attribute) (vals : Attribute → Asn1)
    (h : ValuesAreDer attrs vals) (a : Attribute) (ha : a ∈ attrs) :
    tagsOk (resAttr (byBytes attrs vals) (attrNode a)) = true := by
  obtain ⟨a', ha', hb, _⟩ := byBytes_spec attrs vals h a ha
  simp [attrNode, Asn1.seq, Asn1.oid, resAttr, hb, tagsOk, tagsOkList, h.tags a' ha']

/-! ### the extension request -/

/-- what an RFC 5280 reader obtains from the requested extensions, in the writers' order -/
def modelCsrExts (i : CsrInputs) : List Ext :=
  (if i.p.keyUsages.isEmpty then [] else
    [⟨oidKeyUsage, true, .keyUsage (reqKeyUsageBits i.p.keyUsages)⟩]) ++
  (if i.p.sans.isEmpty then [] else
    [⟨oidSan, i.p.dn.entries.isEmpty, .san (i.p.sans.map reqSan)⟩]) ++
  (if i.p.ekus.isEmpty then [] else [⟨oidEku, false, .eku (i.p.ekus.map rfcEkuOid)⟩]) ++
  i.p.customExts.map (fun e => ⟨e.oid, e.critical, .opaque e.content⟩)

theorem any_false_all {α : Type} (l : List α) (f : α → Bool) (h : l.any f = false) :
    ∀ x ∈ l, f x = false := by
  intro x hx
  cases hq : f x with
  | false => rfl
  | true =>
    have : l.any f = true := List.any_eq_true.2 ⟨x, hx, hq⟩
    rw [h] at this; cases this

theorem csrExts_decode (i : CsrInputs) (hw : WFList (requestedExtensions i.p))
    (hx : csrExtRequestPanics i.p = false)
    (hc : ∀ e ∈ i.p.customExts, e.oid ∉ knownOids) :
    (requestedExtensions i.p).mapM decodeExt = some (modelCsrExts i) := by
  unfold csrExtRequestPanics at hx
  simp only [Bool.or_eq_false_iff] at hx
  obtain ⟨⟨hsan, heku⟩, hcu⟩ := hx
  unfold requestedExtensions at hw ⊢
  unfold modelCsrExts
  obtain ⟨hw3, w4⟩ := wfList_append hw
  obtain ⟨hw2, w3⟩ := wfList_append hw3
  obtain ⟨w1, w2⟩ := wfList_append hw2
  refine mapM_append_some _ _ _ _ _ (mapM_append_some _ _ _ _ _
    (mapM_append_some _ _ _ _ _ ?_ ?_) ?_) ?_
  · unfold keyUsageExt at w1 ⊢
    split
    · rfl
    · rename_i h
      simp only [h] at w1
      have hne : i.p.keyUsages ≠ [] := by simpa using h
      exact mapM_singleton _ _ _ (ext_piece _ _ _ _ (by decide) (tagsOk_kuValue _)
        (KeyUsage.ku_value _ hne) (wf_head w1))
  · unfold sanExt at w2 ⊢
    split
    · rfl
    · rename_i h
      simp only [h] at w2
      have hne : i.p.sans ≠ [] := by simpa using h
      exact mapM_singleton _ _ _ (ext_piece _ _ _ _ (by decide) (tagsOk_sanValue _)
        (san_value _ hne (any_false_all _ _ hsan)) (wf_head w2))
  · unfold ekuExt at w3 ⊢
    split
    · rfl
    · rename_i h
      simp only [h] at w3
      have hne : i.p.ekus ≠ [] := by simpa using h
      have hok : ∀ e ∈ i.p.ekus, oidOk e.oid = true := by
        intro e he
        have := any_false_all _ _ heku e he
        simpa using this
      exact mapM_singleton _ _ _ (ext_piece _ _ _ _ (by decide) (tagsOk_ekuValue _)
        (eku_value _ hne hok) (wf_head w3))
  · refine mapM_map_some _ _ _ _ (fun e he => ?_)
    have hoid : oidOk e.oid = true := by
      have := any_false_all _ _ hcu e he
      simpa using this
    exact decodeExt_extNode e.oid e.critical e.content _ hoid (custom_value _ _ (hc e he))

theorem tagsOk_requested (p : CertParams) : tagsOkList (requestedExtensions p) = true := by
  rw [tagsOkList_eq_all, List.all_eq_true]
  intro t ht
  simp only [requestedExtensions, sanExt, keyUsageExt, ekuExt, extOf, customExtNode,
    List.mem_append, List.mem_map] at ht
  rcases ht with ((ht | ht) | ht) | ht
  · split at ht <;> simp at ht; subst ht; exact tagsOk_extNode _ _ _
  · split at ht <;> simp at ht; subst ht; exact tagsOk_extNode _ _ _
  · split at ht <;> simp at ht; subst ht; exact tagsOk_extNode _ _ _
  · obtain ⟨e, _, rfl⟩ := ht; exact tagsOk_extNode _ _ _

theorem tagsOk_extReqAttr (p : CertParams) : tagsOk (extensionRequestAttr p) = true := by
  simp [extensionRequestAttr, Asn1.seq, Asn1.set, Asn1.oid, tagsOk, tagsOkList, tagsOk_requested]

theorem resAttr_extReq (f : Bytes → Asn1) (p : CertParams) :
    resAttr f (extensionRequestAttr p) = extensionRequestAttr p := by
  simp [extensionRequestAttr, Asn1.seq, Asn1.set, Asn1.oid, resAttr]

def extReqValue (p : CertParams) : Asn1 := .set [.seq (requestedExtensions p)]

theorem decode_extReqAttr (p : CertParams) :
    decodeCsrAttr (extensionRequestAttr p) = some ⟨oidExtensionRequest, encode (extReqValue p)⟩ := by
  have ho : asOid (Asn1.oid [1, 2, 840, 113549, 1, 9, 14]) = some [1, 2, 840, 113549, 1, 9, 14] :=
    asOid_oid _ (by decide)
  simp [extensionRequestAttr, extReqValue, Asn1.seq, Asn1.set, decodeCsrAttr, ho, oidExtensionRequest]

theorem decode_extReqValue (i : CsrInputs) (hw : (extReqValue i.p).WF)
    (hx : csrExtRequestPanics i.p = false)
    (hc : ∀ e ∈ i.p.customExts, e.oid ∉ knownOids) :
    decodeExtensionRequest (encode (extReqValue i.p)) = some (modelCsrExts i) := by
  unfold decodeExtensionRequest
  rw [decodeAll_encode _ hw]
  have hwl : WFList (requestedExtensions i.p) := by
    simp only [extReqValue, Asn1.set, Asn1.seq, Asn1.WF, WFList] at hw
    exact hw.2.2.2.1.2.2.2
  simp only [extReqValue, Asn1.set, Asn1.seq]
  exact csrExts_decode i hwl hx hc

/-! ### the whole certificationRequestInfo -/

theorem resolvesList_map (l : List Asn1) (g : Asn1 → Asn1) (H : ∀ x ∈ l, Resolves x (g x)) :
    ResolvesList l (l.map g) := by
  induction l with
  | nil => exact .nil
  | cons a l ih =>
    exact .cons _ _ _ _ (H a (by simp)) (ih (fun x hx => H x (by simp [hx])))

theorem mem_sorted {l : List Asn1} {x : Asn1} (h : x ∈ sortByEncoding l) : x ∈ l :=
  (List.mergeSort_perm l _).mem_iff.1 h

/-- every attribute node is the extension request or a caller attribute -/
theorem mem_csrAttributes {p : CertParams} {attrs : List Attribute} {x : Asn1}
    (h : x ∈ csrAttributes p attrs) :
    x = extensionRequestAttr p ∨ ∃ a ∈ attrs, x = attrNode a := by
  unfold csrAttributes at h
  rcases List.mem_append.1 h with h | h
  · split at h
    · left; simpa using h
    · cases h
  · right
    obtain ⟨a, ha, rfl⟩ := List.mem_map.1 h
    exact ⟨a, ha, rfl⟩

theorem sem_attrNode (a : Attribute) (ho : oidOk a.oid = true) :
    semAttr (attrNode a) = ⟨a.oid, a.values⟩ := by
  simp [attrNode, Asn1.seq, semAttr, asOid_oid a.oid ho, encode]

theorem sem_extReq (p : CertParams) :
    semAttr (extensionRequestAttr p) = ⟨oidExtensionRequest, encode (extReqValue p)⟩ := by
  have ho : asOid (Asn1.oid [1, 2, 840, 113549, 1, 9, 14]) = some [1, 2, 840, 113549, 1, 9, 14] :=
    asOid_oid _ (by decide)
  simp [extensionRequestAttr, extReqValue, Asn1.seq, Asn1.set, semAttr, ho, oidExtensionRequest]

/-- the record an RFC 2986 reader obtains from the certificationRequestInfo -/
def modelCsr (i : CsrInputs) : CsrInfo :=
  { version := 0, subject := reqName i.p.dn.iter, spki := spkiDer i.subject,
    attrs := (sortByEncoding (csrAttributes i.p i.attrs)).map semAttr }

theorem csr_decodes (i : CsrInputs) (vals : Attribute → Asn1) (hv : ValuesAreDer i.attrs vals)
    (hnp : csrPanics i.p i.attrs = false)
    (hsize : (encode (csrInfo i.p i.subject i.attrs)).length < 256 ^ 126) :
    decodeCsrInfo (encode (csrInfo i.p i.subject i.attrs)) = some (modelCsr i) := by
  unfold csrPanics at hnp
  simp only [Bool.or_eq_false_iff] at hnp
  obtain ⟨⟨hp1, _⟩, hp3⟩ := hnp
  have hoids : ∀ a ∈ i.attrs, oidOk a.oid = true := by
    intro a ha
    have := any_false_all _ _ hp3 a ha
    simpa using this
  let f := byBytes i.attrs vals
  let L := csrAttributes i.p i.attrs
  -- the raw-free twin
  let t' : Asn1 := .seq [.intOfNat 0, writeDistinguishedName i.p.dn, spkiNode i.subject,
    .cons 2 0 ((sortByEncoding L).map (resAttr f))]
  have hres_elem : ∀ x ∈ sortByEncoding L, Resolves x (resAttr f x) := by
    intro x hx
    rcases mem_csrAttributes (mem_sorted hx) with rfl | ⟨a, ha, rfl⟩
    · rw [resAttr_extReq]; exact resolves_refl _ (tagsOk_extReqAttr _)
    · exact resolves_attrNode i.attrs vals hv a ha
  have hres : Resolves (csrInfo i.p i.subject i.attrs) t' := by
    simp only [csrInfo, Asn1.seq, Asn1.implicit, Asn1.setOf, t']
    refine .cons _ _ _ _ (.cons _ _ _ _ (resolves_refl _ (by simp [Asn1.intOfNat, tagsOk]))
      (.cons _ _ _ _ (resolves_refl _ (tagsOk_dn _)) (.cons _ _ _ _ (resolves_refl _ (tagsOk_spki _))
      (.cons _ _ _ _ (.cons _ _ _ _ (resolvesList_map _ _ hres_elem)) .nil))))
  have htags_elem : ∀ x ∈ sortByEncoding L, tagsOk (resAttr f x) = true := by
    intro x hx
    rcases mem_csrAttributes (mem_sorted hx) with rfl | ⟨a, ha, rfl⟩
    · rw [resAttr_extReq]; exact tagsOk_extReqAttr _
    · exact tagsOk_resAttr_attrNode i.attrs vals hv a ha
  have htags : tagsOk t' = true := by
    simp only [t', Asn1.seq, tagsOk, tagsOkList, Bool.and_eq_true, decide_eq_true_eq]
    refine ⟨⟨by decide, by decide⟩, by simp [Asn1.intOfNat, tagsOk], tagsOk_dn _, tagsOk_spki _,
      ⟨⟨by decide, by decide⟩, tagsOkList_map _ _ htags_elem⟩, trivial⟩
  have hwf : t'.WF := wf_of_tagsOk t' htags (by rw [← hres.encode_eq]; exact hsize)
  unfold decodeCsrInfo
  rw [decodeAll_resolves hres hwf]
  have hdec : ((sortByEncoding L).map (resAttr f)).mapM decodeCsrAttr =
      some ((sortByEncoding L).map semAttr) := by
    refine mapM_map_some _ _ _ _ (fun x hx => ?_)
    rcases mem_csrAttributes (mem_sorted hx) with rfl | ⟨a, ha, rfl⟩
    · rw [resAttr_extReq, decode_extReqAttr, sem_extReq]
    · rw [decode_resAttr_attrNode i.attrs vals hv a ha (hoids a ha), sem_attrNode a (hoids a ha)]
  have n1 := decodeName_write i.p.dn (dn_oids_ok _ hp1)
  have ver : asNat (Asn1.intOfNat 0) = some 0 := asNat_intOfNat 0
  simp only [Option.bind, t', Asn1.seq, spkiNode, decodeCsrInfoTree, ver, n1, hdec, modelCsr,
    spkiDer, L]

theorem encodeList_length_perm {a b : List Asn1} (h : a.Perm b) :
    (encodeList a).length = (encodeList b).length := by
  induction h with
  | nil => rfl
  | cons x _ ih => simp only [encodeList, List.length_append, ih]
  | swap x y l => simp only [encodeList, List.length_append]; omega
  | trans _ _ ih1 ih2 => exact ih1.trans ih2

/-- the size of the request does not depend on the order the attribute set is written in -/
theorem csrInfo_length (p : CertParams) (s : PubKey) (attrs : List Attribute) :
    (encode (csrInfo p s attrs)).length =
      (encode (.seq [.intOfNat 0, writeDistinguishedName p.dn, spkiNode s,
        .cons 2 0 (csrAttributes p attrs)])).length := by
  have h := encodeList_length_perm (List.mergeSort_perm (csrAttributes p attrs)
    (fun a b => bytesLe (encode a) (encode b)))
  simp only [csrInfo, Asn1.seq, Asn1.implicit, Asn1.setOf, sortByEncoding, encode, encodeList,
    List.length_append, List.length_cons, h]

/-! ### the clauses of C07 -/

theorem foldl_erase_perm {α : Type} [DecidableEq α] (C : List α) :
    ∀ (acc E : List α), acc.Perm (E ++ C) → (C.foldl (fun acc a => acc.erase a) acc).Perm E := by
  induction C with
  | nil => intro acc E h; simpa using h
  | cons a C ih =>
    intro acc E h
    simp only [List.foldl_cons]
    apply ih
    have h1 : (acc.erase a).Perm ((E ++ a :: C).erase a) := h.erase a
    have h2 : (E ++ a :: C).Perm (a :: (E ++ C)) := List.perm_middle
    have h3 : ((E ++ a :: C).erase a).Perm ((a :: (E ++ C)).erase a) := h2.erase a
    have h4 : (a :: (E ++ C)).erase a = E ++ C := by simp
    rw [h4] at h3
    exact h1.trans h3

def callerAttrs (i : CsrInputs) : List CsrAttr := i.attrs.map (fun a => ⟨a.oid, a.values⟩)

def extReqSem (i : CsrInputs) : List CsrAttr :=
  if writeExtensionRequest i.p then [⟨oidExtensionRequest, encode (extReqValue i.p)⟩] else []

/-- the decoded attributes are a permutation of (extension request?) ++ caller attributes -/
theorem attrs_perm (i : CsrInputs) (hoids : ∀ a ∈ i.attrs, oidOk a.oid = true) :
    (modelCsr i).attrs.Perm (extReqSem i ++ callerAttrs i) := by
  unfold modelCsr
  simp only
  have hp : ((sortByEncoding (csrAttributes i.p i.attrs)).map semAttr).Perm
      ((csrAttributes i.p i.attrs).map semAttr) :=
    (List.mergeSort_perm _ _).map semAttr
  refine hp.trans ?_
  unfold csrAttributes extReqSem callerAttrs
  rw [List.map_append, List.map_map]
  have h2 : i.attrs.map (semAttr ∘ attrNode) = i.attrs.map (fun a => (⟨a.oid, a.values⟩ : CsrAttr)) := by
    apply List.map_congr_left
    intro a ha
    exact sem_attrNode a (hoids a ha)
  rw [h2]
  cases writeExtensionRequest i.p with
  | false => simp
  | true => simp [sem_extReq]

theorem wants_iff (i : CsrInputs) :
    (!(reqCsrExts i).isEmpty) = writeExtensionRequest i.p := by
  unfold reqCsrExts writeExtensionRequest
  cases h1 : i.p.keyUsages.isEmpty <;> cases h2 : i.p.sans.isEmpty <;>
    cases h3 : i.p.ekus.isEmpty <;> cases h4 : i.p.customExts.isEmpty <;> simp_all

theorem csr_strip (i : CsrInputs) (hc : ∀ e ∈ i.p.customExts, e.oid ∉ knownOids) :
    (modelCsrExts i).map (normExt (i.p.customExts.map (·.oid))) = reqCsrExts i := by
  have nk : ∀ o ∈ knownOids, o ∉ i.p.customExts.map (·.oid) := by
    intro o ho h
    obtain ⟨e, he, rfl⟩ := List.mem_map.1 h
    exact hc e he ho
  unfold modelCsrExts reqCsrExts
  simp only [List.map_append]
  have one : ∀ (b : Bool) (o : List Nat) (cr : Bool) (v : ExtValue), o ∈ knownOids →
      (if b then [] else [(⟨o, cr, v⟩ : Ext)]).map (normExt (i.p.customExts.map (·.oid))) =
        if b then [] else [⟨o, false, v⟩] := by
    intro b o cr v ho
    cases b
    · simp [normExt, nk o ho]
    · rfl
  rw [one _ _ _ _ (by decide), one _ _ _ _ (by decide), one _ _ _ _ (by decide)]
  congr 1
  rw [List.map_map]
  apply List.map_congr_left
  intro e he
  have : e.oid ∈ i.p.customExts.map (·.oid) := List.mem_map.2 ⟨e, he, rfl⟩
  simp [normExt, this]

theorem count_ge_of_perm {α : Type} [DecidableEq α] {l E C : List α} (h : l.Perm (E ++ C)) (a : α) :
    C.count a ≤ l.count a := by
  rw [h.count_eq, List.count_append]; omega

theorem extReq_wf (i : CsrInputs) (h : writeExtensionRequest i.p = true)
    (hsize : (encode (csrInfo i.p i.subject i.attrs)).length < 256 ^ 126) :
    (extReqValue i.p).WF := by
  apply wf_of_tagsOk
  · simp [extReqValue, Asn1.set, Asn1.seq, tagsOk, tagsOkList, tagsOk_requested]
  · have hmem : extensionRequestAttr i.p ∈ sortByEncoding (csrAttributes i.p i.attrs) := by
      apply (List.mergeSort_perm _ _).mem_iff.2
      simp [csrAttributes, h]
    have h1 := encode_length_le_encodeList _ _ hmem
    have h2 : (encode (extReqValue i.p)).length ≤ (encode (extensionRequestAttr i.p)).length := by
      simp only [extensionRequestAttr, extReqValue, Asn1.seq, encode, encodeList, List.length_cons,
        List.length_append, List.append_nil]
      omega
    have h3 : (encodeList (sortByEncoding (csrAttributes i.p i.attrs))).length ≤
        (encode (csrInfo i.p i.subject i.attrs)).length := by
      simp only [csrInfo, Asn1.seq, Asn1.implicit, Asn1.setOf, encode, encodeList,
        List.length_cons, List.length_append, List.append_nil]
      omega
    omega

/-- **a CSR says exactly what its parameters say**: every clause of `Spec.c07Clauses` holds of
    the encoded certificationRequestInfo -/
theorem c07_clauses_hold (i : CsrInputs) (vals : Attribute → Asn1) (hv : ValuesAreDer i.attrs vals)
    (hnp : csrPanics i.p i.attrs = false)
    (hc : ∀ e ∈ i.p.customExts, e.oid ∉ knownOids)
    (hsize : (encode (csrInfo i.p i.subject i.attrs)).length < 256 ^ 126) :
    c07Clauses i (encode (csrInfo i.p i.subject i.attrs)) = [] := by
  have hnp' := hnp
  unfold csrPanics at hnp'
  simp only [Bool.or_eq_false_iff] at hnp'
  obtain ⟨⟨_, hp2⟩, hp3⟩ := hnp'
  have hoids : ∀ a ∈ i.attrs, oidOk a.oid = true := by
    intro a ha
    have := any_false_all _ _ hp3 a ha
    simpa using this
  have hperm := attrs_perm i hoids
  have hrest := foldl_erase_perm (callerAttrs i) _ _ hperm
  unfold c07Clauses
  rw [csr_decodes i vals hv hnp hsize]
  have hcount : (callerAttrs i).all
      (fun a => decide ((modelCsr i).attrs.count a ≥ (callerAttrs i).count a)) = true := by
    rw [List.all_eq_true]
    intro a _
    simpa using count_ge_of_perm hperm a
  have hw := wants_iff i
  simp only [hw]
  have hsub : (modelCsr i).subject = reqName (enumOf i.p.dn) := rfl
  have hsp : (modelCsr i).spki = rfcSpki i.subject := spki_is_rfc _
  have hver : (modelCsr i).version = 0 := rfl
  unfold callerAttrs at hcount hrest
  simp only [hver, hsub, hsp, hcount, clause, beq_self_eq_true, if_true, List.nil_append]
  cases hwr : writeExtensionRequest i.p with
  | false =>
    have : extReqSem i = [] := by simp [extReqSem, hwr]
    rw [this] at hrest
    have hnil := List.Perm.eq_nil hrest
    simp [hnil]
  | true =>
    have : extReqSem i = [⟨oidExtensionRequest, encode (extReqValue i.p)⟩] := by
      simp [extReqSem, hwr]
    rw [this] at hrest
    have hone := List.perm_singleton.1 hrest
    have hx : csrExtRequestPanics i.p = false := by simpa [hwr] using hp2
    have hd := decode_extReqValue i (extReq_wf i hwr hsize) hx hc
    simp only [hone, if_true, beq_self_eq_true, hd, csr_strip i hc, isPermOf_self, List.nil_append]

end Rcgen.Proofs.CsrDecode
