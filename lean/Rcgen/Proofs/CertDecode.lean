import Rcgen.Proofs.KeyUsage
import Rcgen.Theorems.C01
import Rcgen.Theorems.C10
/-
  Assembly of the typed decode of a whole TBSCertificate: the tree `tbsCertificate` writes,
  encoded and read back by the strict DER decoder and the RFC 5280 readers of Spec/X509.lean,
  is the content the parameters ask for.
-/
namespace Rcgen.Proofs.CertDecode
open Rcgen Rcgen.Model Rcgen.Spec Rcgen.Proofs.Leaf Rcgen.Proofs.X509 Rcgen.Proofs.KeyUsage

/-! ### tags of the writers' trees -/

theorem tagsOk_prim (n : Nat) (c : Bytes) (h : n < 31 := by decide) : tagsOk (.prim 0 n c) = true := by
  simp [tagsOk, h]

theorem tagsOk_dn (dn : DistinguishedName) : tagsOk (writeDistinguishedName dn) = true := by
  simp only [writeDistinguishedName, Asn1.seq, tagsOk, Bool.and_eq_true, decide_eq_true_eq]
  refine ⟨⟨by decide, by decide⟩, tagsOkList_map _ _ (fun e _ => ?_)⟩
  obtain ⟨t, v⟩ := e
  cases v <;> simp [rdnNode, Asn1.set, Asn1.seq, Asn1.oid, DnValue.node, Asn1.bmp, Asn1.ia5,
    Asn1.printable, Asn1.teletex, Asn1.universalStr, Asn1.utf8, tagsOk, tagsOkList]

theorem tagsOk_time (dt : DateTime) : tagsOk (writeTime dt) = true := by
  unfold writeTime; simp only; split <;> simp [Asn1.utcTime, Asn1.genTime, tagsOk]

theorem tagsOk_algIdent (a : SigAlg) : tagsOk (algIdent a) = true := by cases a <;> decide

theorem tagsOk_spkiAlg (a : SigAlg) : tagsOk (spkiAlgIdent a) = true := by cases a <;> decide

theorem tagsOk_spki (k : PubKey) : tagsOk (spkiNode k) = true := by
  simp [spkiNode, Asn1.seq, Asn1.bitStringOctets, Asn1.bitString, tagsOk, tagsOkList, tagsOk_spkiAlg]

theorem tagsOk_extNode (oid : List Nat) (c : Bool) (v : Bytes) : tagsOk (extNode oid c v) = true := by
  cases c <;> simp [extNode, Asn1.seq, Asn1.oid, Asn1.bool, Asn1.octets, tagsOk, tagsOkList]

theorem tagsOk_sanNode (s : SanType) : tagsOk (sanNode s) = true := by
  cases s <;> simp [sanNode, Asn1.implicit, Asn1.ia5, Asn1.octets, Asn1.seq, Asn1.oid,
    Asn1.explicit, Asn1.utf8, tagsOk, tagsOkList]

theorem tagsOk_subtreeNode (t : GeneralSubtree) : tagsOk (subtreeNode t) = true := by
  cases t with
  | directoryName dn =>
    simp [subtreeNode, Asn1.seq, Asn1.explicit, tagsOk, tagsOkList, tagsOk_dn]
  | _ => simp [subtreeNode, Asn1.implicit, Asn1.ia5, Asn1.octets, Asn1.seq, tagsOk, tagsOkList]

theorem tagsOk_ncValue (nc : NameConstraints) : tagsOk (ncValue nc) = true := by
  have hp := tagsOkList_map nc.permitted subtreeNode (fun t _ => tagsOk_subtreeNode t)
  have he := tagsOkList_map nc.excluded subtreeNode (fun t _ => tagsOk_subtreeNode t)
  unfold ncValue subtreesNode
  by_cases h1 : nc.permitted.isEmpty <;> by_cases h2 : nc.excluded.isEmpty <;>
    simp [h1, h2, Asn1.seq, Asn1.implicit, tagsOk, tagsOkList, hp, he]

theorem tagsOk_crlDpsValue (dps : List CrlDistributionPoint) : tagsOk (crlDpsValue dps) = true := by
  simp only [crlDpsValue, Asn1.seq, tagsOk, Bool.and_eq_true, decide_eq_true_eq]
  refine ⟨⟨by decide, by decide⟩, tagsOkList_map _ _ (fun dp _ => ?_)⟩
  have : tagsOkList (dp.uris.map (fun u => Asn1.implicit 6 (.ia5 u))) = true :=
    tagsOkList_map _ _ (fun u _ => by simp [Asn1.implicit, Asn1.ia5, tagsOk])
  simp only [Asn1.implicit, Asn1.ia5] at this
  simp [dpNameUris, Asn1.implicit, Asn1.seq, Asn1.ia5, tagsOk, tagsOkList, this]

theorem tagsOk_kuValue (kus : List KeyUsage) : tagsOk (keyUsageValue kus) = true := by
  simp [keyUsageValue, Asn1.bitString, tagsOk]

theorem tagsOk_ekuValue (ekus : List Eku) :
    tagsOk (Asn1.seq (ekus.map (fun e => Asn1.oid e.oid))) = true := by
  simp only [Asn1.seq, tagsOk, Bool.and_eq_true, decide_eq_true_eq]
  exact ⟨⟨by decide, by decide⟩, tagsOkList_map _ _ (fun e _ => by simp [Asn1.oid, tagsOk])⟩

theorem tagsOk_sanValue (sans : List SanType) : tagsOk (Asn1.seq (sans.map sanNode)) = true := by
  simp only [Asn1.seq, tagsOk, Bool.and_eq_true, decide_eq_true_eq]
  exact ⟨⟨by decide, by decide⟩, tagsOkList_map _ _ (fun s _ => tagsOk_sanNode s)⟩

theorem tagsOk_exts (H : Hashes) (p : CertParams) (s : PubKey) (i : Issuer) :
    tagsOkList (certExtensions H p s i) = true := by
  rw [tagsOkList_eq_all, List.all_eq_true]
  intro t ht
  simp only [certExtensions, sanExt, keyUsageExt, ekuExt, nameConstraintsExt, crlDpsExt, caExts,
    akiExt, skiExt, extOf, customExtNode, List.mem_append, List.mem_map] at ht
  rcases ht with ((((((ht | ht) | ht) | ht) | ht) | ht) | ht) | ht
  · split at ht <;> simp at ht; subst ht; exact tagsOk_extNode _ _ _
  · split at ht <;> simp at ht; subst ht; exact tagsOk_extNode _ _ _
  · split at ht <;> simp at ht; subst ht; exact tagsOk_extNode _ _ _
  · split at ht <;> simp at ht; subst ht; exact tagsOk_extNode _ _ _
  · split at ht
    · simp at ht
    · split at ht <;> simp at ht; subst ht; exact tagsOk_extNode _ _ _
  · split at ht <;> simp at ht; subst ht; exact tagsOk_extNode _ _ _
  · split at ht
    · simp at ht; rcases ht with h | h <;> subst h <;> exact tagsOk_extNode _ _ _
    · simp at ht; rcases ht with h | h <;> subst h <;> exact tagsOk_extNode _ _ _
    · simp at ht
  · obtain ⟨e, _, rfl⟩ := ht; exact tagsOk_extNode _ _ _

theorem tagsOk_tbs (H : Hashes) (p : CertParams) (s : PubKey) (i : Issuer) :
    tagsOk (tbsCertificate H p s i) = true := by
  have hser : tagsOk (serialNode H p s) = true := by
    unfold serialNode; split <;> simp [Asn1.intOfBytes, tagsOk]
  simp only [tbsCertificate, tbsCertificateFields, Asn1.seq, tagsOk, Bool.and_eq_true,
    decide_eq_true_eq, tagsOkList_append]
  refine ⟨⟨by decide, by decide⟩, ?_, ?_⟩
  · simp [tagsOkList, Asn1.explicit, Asn1.intOfNat, tagsOk, hser, tagsOk_algIdent, tagsOk_dn,
      tagsOk_time, tagsOk_spki]
  · split
    · simp [tagsOkList, Asn1.explicit, Asn1.seq, tagsOk, tagsOk_exts]
    · rfl

/-! ### the extension list -/

/-- what an RFC 5280 reader obtains from the extension list `certExtensions` writes: the
    requested content with the criticality the writers choose, in the writers' order -/
def modelExts (i : CertInputs) : List Ext :=
  (if i.p.useAki then [⟨oidAki, false, .aki (some (akiValue i.H i.issuer))⟩] else []) ++
  (if i.p.sans.isEmpty then [] else
    [⟨oidSan, i.p.dn.entries.isEmpty, .san (i.p.sans.map reqSan)⟩]) ++
  (if i.p.keyUsages.isEmpty then [] else
    [⟨oidKeyUsage, true, .keyUsage (reqKeyUsageBits i.p.keyUsages)⟩]) ++
  (if i.p.ekus.isEmpty then [] else [⟨oidEku, false, .eku (i.p.ekus.map rfcEkuOid)⟩]) ++
  (match i.p.nameConstraints with
   | none => []
   | some nc =>
     if nc.isEmpty then [] else
       [⟨oidNameConstraints, true,
         .nameConstraints (nc.permitted.map (reqSubtree enumOf)) (nc.excluded.map (reqSubtree enumOf))⟩]) ++
  (if i.p.crlDps.isEmpty then [] else
    [⟨oidCrlDps, false, .crlDps (i.p.crlDps.map (fun dp => dp.uris.map GName.uri))⟩]) ++
  (match i.p.isCa with
   | .ca pl =>
     [⟨oidSki, false, .ski (i.p.keyIdMethod.derive i.H (spkiDer i.subject))⟩,
      ⟨oidBasicConstraints, true, .basicConstraints true pl⟩]
   | .explicitNoCa =>
     [⟨oidSki, false, .ski (i.p.keyIdMethod.derive i.H (spkiDer i.subject))⟩,
      ⟨oidBasicConstraints, true, .basicConstraints false none⟩]
   | .noCa => []) ++
  i.p.customExts.map (fun e => ⟨e.oid, e.critical, .opaque e.content⟩)

theorem mapM_singleton {β γ : Type} (g : β → Option γ) (a : β) (x : γ) (h : g a = some x) :
    [a].mapM g = some [x] := by simp [List.mapM_cons, h]

theorem ext_piece (oid : List Nat) (crit : Bool) (v : Asn1) (x : ExtValue)
    (hoid : oidOk oid = true) (ht : tagsOk v = true)
    (hx : v.WF → decodeExtValue oid (encode v) = some x) (hw : (extOf oid crit v).WF) :
    decodeExt (extOf oid crit v) = some ⟨oid, crit, x⟩ :=
  decodeExt_extOf oid crit v x hoid (hx (value_wf oid crit v hw ht))

theorem wf_head {t : Asn1} (h : WFList [t]) : t.WF := by simp only [WFList] at h; exact h.1

theorem exts_decode (i : CertInputs)
    (hw : WFList (certExtensions i.H i.p i.subject i.issuer))
    (hx : extensionsPanic i.p = false)
    (hc : ∀ e ∈ i.p.customExts, e.oid ∉ knownOids) :
    (certExtensions i.H i.p i.subject i.issuer).mapM decodeExt = some (modelExts i) := by
  unfold extensionsPanic at hx
  simp only [Bool.or_eq_false_iff] at hx
  obtain ⟨⟨⟨⟨hsan, heku⟩, hnc⟩, hdp⟩, hcu⟩ := hx
  unfold certExtensions at hw ⊢
  unfold modelExts
  obtain ⟨hw7, w8⟩ := wfList_append hw
  obtain ⟨hw6, w7⟩ := wfList_append hw7
  obtain ⟨hw5, w6⟩ := wfList_append hw6
  obtain ⟨hw4, w5⟩ := wfList_append hw5
  obtain ⟨hw3, w4⟩ := wfList_append hw4
  obtain ⟨hw2, w3⟩ := wfList_append hw3
  obtain ⟨w1, w2⟩ := wfList_append hw2
  refine mapM_append_some _ _ _ _ _ (mapM_append_some _ _ _ _ _ (mapM_append_some _ _ _ _ _
    (mapM_append_some _ _ _ _ _ (mapM_append_some _ _ _ _ _ (mapM_append_some _ _ _ _ _
    (mapM_append_some _ _ _ _ _ ?_ ?_) ?_) ?_) ?_) ?_) ?_) ?_
  · -- authority key identifier
    split
    · rename_i h
      simp only [h, if_true] at w1
      exact mapM_singleton _ _ _ (ext_piece _ _ _ _ (by decide) (by simp [Asn1.seq, Asn1.implicit, Asn1.octets, tagsOk, tagsOkList])
        (aki_value _) (wf_head w1))
    · rfl
  · -- subject alternative names
    unfold sanExt at w2 ⊢
    split
    · rfl
    · rename_i h
      simp only [h] at w2
      have hne : i.p.sans ≠ [] := by simpa using h
      have hok : ∀ s ∈ i.p.sans, sanPanics s = false := by
        intro s hs
        cases hp : sanPanics s with
        | false => rfl
        | true =>
          have : i.p.sans.any sanPanics = true := List.any_eq_true.2 ⟨s, hs, hp⟩
          rw [hsan] at this; cases this
      exact mapM_singleton _ _ _ (ext_piece _ _ _ _ (by decide) (tagsOk_sanValue _)
        (san_value _ hne hok) (wf_head w2))
  · -- key usage
    unfold keyUsageExt at w3 ⊢
    split
    · rfl
    · rename_i h
      simp only [h] at w3
      have hne : i.p.keyUsages ≠ [] := by simpa using h
      exact mapM_singleton _ _ _ (ext_piece _ _ _ _ (by decide) (tagsOk_kuValue _)
        (ku_value _ hne) (wf_head w3))
  · -- extended key usage
    unfold ekuExt at w4 ⊢
    split
    · rfl
    · rename_i h
      simp only [h] at w4
      have hne : i.p.ekus ≠ [] := by simpa using h
      have hok : ∀ e ∈ i.p.ekus, oidOk e.oid = true := by
        intro e he
        cases hp : oidOk e.oid with
        | true => rfl
        | false =>
          have : i.p.ekus.any (fun e => !oidOk e.oid) = true :=
            List.any_eq_true.2 ⟨e, he, by simp [hp]⟩
          rw [heku] at this; cases this
      exact mapM_singleton _ _ _ (ext_piece _ _ _ _ (by decide) (tagsOk_ekuValue _)
        (eku_value _ hne hok) (wf_head w4))
  · -- name constraints
    unfold nameConstraintsExt at w5 ⊢
    cases hncv : i.p.nameConstraints with
    | none => rfl
    | some nc =>
      simp only [hncv] at w5 hnc ⊢
      by_cases hem : nc.isEmpty = true
      · simp [hem]
      · have hem' : nc.isEmpty = false := by simpa using hem
        simp only [hem', Bool.false_eq_true, if_false] at w5 ⊢
        simp only [ncPanics, hem', Bool.not_false, Bool.true_and, Bool.or_eq_false_iff] at hnc
        have hp : ∀ t ∈ nc.permitted, subtreePanics t = false := by
          intro t ht
          cases hq : subtreePanics t with
          | false => rfl
          | true =>
            have : nc.permitted.any subtreePanics = true := List.any_eq_true.2 ⟨t, ht, hq⟩
            rw [hnc.1] at this; cases this
        have he : ∀ t ∈ nc.excluded, subtreePanics t = false := by
          intro t ht
          cases hq : subtreePanics t with
          | false => rfl
          | true =>
            have : nc.excluded.any subtreePanics = true := List.any_eq_true.2 ⟨t, ht, hq⟩
            rw [hnc.2] at this; cases this
        exact mapM_singleton _ _ _ (ext_piece [2, 5, 29, 30] true (ncValue nc) _ (by decide)
          (tagsOk_ncValue nc) (nc_value nc hem' hp he) (wf_head w5))
  · -- CRL distribution points
    unfold crlDpsExt at w6 ⊢
    split
    · rfl
    · rename_i h
      simp only [h] at w6
      have hne : i.p.crlDps ≠ [] := by simpa using h
      have hok : ∀ dp ∈ i.p.crlDps, ∀ u ∈ dp.uris, isAscii u = true := by
        intro dp hdpm u hu
        cases hq : isAscii u with
        | true => rfl
        | false =>
          have : i.p.crlDps.any (fun dp => dp.uris.any (fun u => !isAscii u)) = true :=
            List.any_eq_true.2 ⟨dp, hdpm, List.any_eq_true.2 ⟨u, hu, by simp [hq]⟩⟩
          rw [hdp] at this; cases this
      exact mapM_singleton _ _ _ (ext_piece [2, 5, 29, 31] false (crlDpsValue i.p.crlDps) _
        (by decide) (tagsOk_crlDpsValue _) (crlDps_value _ hne hok) (wf_head w6))
  · -- subject key identifier and basic constraints
    unfold caExts at w7 ⊢
    cases hca : i.p.isCa with
    | noCa => rfl
    | explicitNoCa =>
      simp only [hca, WFList, skiExt] at w7 ⊢
      have a := ext_piece [2, 5, 29, 14] false (.octets (i.p.keyIdMethod.derive i.H (spkiDer i.subject))) _
        (by decide) (by simp [Asn1.octets, tagsOk]) (ski_value _) w7.1
      have b := ext_piece [2, 5, 29, 19] true (.seq []) _ (by decide) (by decide) bc_value_noca w7.2.1
      simp [List.mapM_cons, a, b, oidSki, oidBasicConstraints]
    | ca pl =>
      cases pl with
      | none =>
        simp only [hca, WFList, skiExt] at w7 ⊢
        have a := ext_piece [2, 5, 29, 14] false (.octets (i.p.keyIdMethod.derive i.H (spkiDer i.subject))) _
          (by decide) (by simp [Asn1.octets, tagsOk]) (ski_value _) w7.1
        have b := ext_piece [2, 5, 29, 19] true (.seq [.bool true]) _ (by decide) (by decide)
          (bc_value_ca none) w7.2.1
        simp [List.mapM_cons, a, b, oidSki, oidBasicConstraints]
      | some n =>
        simp only [hca, WFList, skiExt] at w7 ⊢
        have a := ext_piece [2, 5, 29, 14] false (.octets (i.p.keyIdMethod.derive i.H (spkiDer i.subject))) _
          (by decide) (by simp [Asn1.octets, tagsOk]) (ski_value _) w7.1
        have b := ext_piece [2, 5, 29, 19] true (.seq [.bool true, .intOfNat n]) _ (by decide)
          (by simp [Asn1.seq, Asn1.bool, Asn1.intOfNat, tagsOk, tagsOkList])
          (bc_value_ca (some n)) w7.2.1
        simp [List.mapM_cons, a, b, oidSki, oidBasicConstraints]
  · -- caller-supplied extensions
    refine mapM_map_some _ _ _ _ (fun e he => ?_)
    have hoid : oidOk e.oid = true := by
      cases hp : oidOk e.oid with
      | true => rfl
      | false =>
        have : i.p.customExts.any (fun e => !oidOk e.oid) = true :=
          List.any_eq_true.2 ⟨e, he, by simp [hp]⟩
        rw [hcu] at this; cases this
    exact decodeExt_extNode e.oid e.critical e.content _ hoid (custom_value _ _ (hc e he))

/-! ### the whole TBSCertificate -/

theorem spki_is_rfc (k : PubKey) : spkiDer k = rfcSpki k := by
  unfold spkiDer spkiNode rfcSpki
  have := Theorems.C01.spki_algid_is_rfc_identifier k.alg
  simp only [Asn1.seq, encode, encodeList, Asn1.bitStringOctets, Asn1.bitString,
    bitStringContent_octets, this]

theorem derive_eq (H : Hashes) (m : KeyIdMethod) (k : PubKey) :
    m.derive H (spkiDer k) = reqKeyId H m (rfcSpki k) := by
  rw [spki_is_rfc]; cases m <;> rfl

theorem akiValue_eq (H : Hashes) (iss : Issuer) :
    akiValue H iss = reqKeyId H iss.keyIdMethod (rfcSpki iss.key) := by
  unfold akiValue
  cases hm : iss.keyIdMethod <;> simp [reqKeyId, KeyIdMethod.derive, spki_is_rfc]

theorem serial_decodes (i : CertInputs) :
    asNat (serialNode i.H i.p i.subject) = some (reqSerial i) := by
  unfold serialNode reqSerial
  cases hs : i.p.serial with
  | some s => simp only; exact asNat_intOfBytes s
  | none =>
    simp only
    rw [asNat_intOfBytes]
    unfold autoSerialBytes
    cases (i.H.sha256 i.subject.raw).take 20 with
    | nil => rfl
    | cons b r =>
      have : b.toNat &&& 127 = b.toNat % 128 := Nat.and_two_pow_sub_one_eq_mod _ 7
      simp only [this]

/-- the instant and form an RFC 5280 reader obtains from a written time field -/
def reqTime (dt : DateTime) : TimeForm × Int :=
  (if 1950 ≤ Theorems.C09.utcYear dt ∧ Theorems.C09.utcYear dt ≤ 2049 then TimeForm.utc
   else TimeForm.generalized, dt.epochSeconds)

theorem time_decodes (dt : DateTime) (h : checkTime dt = none) :
    asTime (writeTime dt) = some (reqTime dt) := by
  have he : timeEncodable dt = true := by
    unfold checkTime at h; split at h <;> simp_all
  exact Theorems.C09.time_same_instant dt ((Theorems.C09.encodable_iff_utc_year dt).1 he)

/-- the record an RFC 5280 reader obtains from the to-be-signed certificate -/
def modelTbs (i : CertInputs) : TbsCert :=
  { version := 2, serial := reqSerial i, sigAlg := encode (algIdent i.issuer.key.alg),
    issuer := reqName i.issuer.dn.iter, notBefore := reqTime i.p.notBefore,
    notAfter := reqTime i.p.notAfter, subject := reqName i.p.dn.iter,
    spki := spkiDer i.subject, exts := modelExts i }

theorem exts_nonempty (H : Hashes) (p : CertParams) (s : PubKey) (iss : Issuer)
    (h : shouldWriteExts p = true) : certExtensions H p s iss ≠ [] := by
  intro hnil
  have : shouldWriteExts p = false := by
    unfold certExtensions at hnil
    simp only [List.append_eq_nil_iff, List.map_eq_nil_iff] at hnil
    obtain ⟨⟨⟨⟨⟨⟨⟨h1, h2⟩, h3⟩, h4⟩, h5⟩, h6⟩, h7⟩, h8⟩ := hnil
    have e1 : p.useAki = false := by
      cases hb : p.useAki with
      | false => rfl
      | true => simp [hb] at h1
    have e2 : p.sans.isEmpty = true := by
      unfold sanExt at h2; split at h2 <;> simp_all
    have e3 : p.keyUsages.isEmpty = true := by
      unfold keyUsageExt at h3; split at h3 <;> simp_all
    have e4 : p.ekus.isEmpty = true := by
      unfold ekuExt at h4; split at h4 <;> simp_all
    have e5 : ncRequested p.nameConstraints = false := by
      unfold nameConstraintsExt at h5
      cases hn : p.nameConstraints with
      | none => rfl
      | some nc =>
        simp only [hn] at h5
        split at h5
        · rename_i he; simp [ncRequested, he]
        · simp at h5
    have e6 : p.crlDps.isEmpty = true := by
      unfold crlDpsExt at h6; split at h6 <;> simp_all
    have e7 : p.isCa = .noCa := by
      unfold caExts at h7; split at h7 <;> simp_all
    unfold shouldWriteExts
    simp [e1, e2, e3, e4, e5, e6, e7, h8]
  rw [h] at this; cases this

theorem modelExts_nil (i : CertInputs) (h : shouldWriteExts i.p = false) : modelExts i = [] := by
  unfold shouldWriteExts at h
  simp only [Bool.or_eq_false_iff, Bool.not_eq_false', bne_eq_false_iff_eq] at h
  obtain ⟨⟨⟨⟨⟨⟨⟨h1, h2⟩, h3⟩, h4⟩, h5⟩, h6⟩, h7⟩, h8⟩ := h
  have e8 : i.p.customExts = [] := by simpa using h8
  unfold modelExts
  cases hnc : i.p.nameConstraints with
  | none => simp [h1, h2, h3, h4, h6, h7, e8]
  | some nc =>
    rw [hnc] at h5
    have : nc.isEmpty = true := by simpa [ncRequested] using h5
    simp [h1, h2, h3, h4, h6, h7, e8, this]

theorem tbs_decodes (i : CertInputs)
    (hinv : certInvalid i.p i.issuer = none)
    (hnp : certPanics i.p i.issuer = false)
    (hc : ∀ e ∈ i.p.customExts, e.oid ∉ knownOids)
    (hsize : (encode (tbsCertificate i.H i.p i.subject i.issuer)).length < 256 ^ 126) :
    decodeTbsCert (encode (tbsCertificate i.H i.p i.subject i.issuer)) = some (modelTbs i) := by
  have hwf := wf_of_tagsOk _ (tagsOk_tbs i.H i.p i.subject i.issuer) hsize
  unfold decodeTbsCert
  rw [decodeAll_encode _ hwf]
  -- validation facts
  unfold certInvalid at hinv
  rw [Theorems.C10.firstErr_none] at hinv
  have t1 := time_decodes i.p.notBefore (hinv _ (by simp))
  have t2 := time_decodes i.p.notAfter (hinv _ (by simp))
  unfold certPanics at hnp
  simp only [Bool.or_eq_false_iff] at hnp
  obtain ⟨⟨⟨⟨hp1, _⟩, _⟩, hp4⟩, hp5⟩ := hnp
  have n1 := decodeName_write i.issuer.dn (dn_oids_ok _ hp1)
  have n2 := decodeName_write i.p.dn (dn_oids_ok _ hp4)
  have ser := serial_decodes i
  have ver : asNat (Asn1.intOfNat 2) = some 2 := asNat_intOfNat 2
  cases hsw : shouldWriteExts i.p with
  | false =>
    have hm := modelExts_nil i hsw
    simp only [Option.bind, tbsCertificate, tbsCertificateFields, hsw, Asn1.seq, Asn1.explicit,
      algIdent, spkiNode, List.cons_append, List.nil_append, Bool.false_eq_true, if_false,
      List.append_nil, decodeTbsCertTree, ver, ser, n1, n2, t1, t2, modelTbs, hm, spkiDer]
  | true =>
    have hex : extensionsPanic i.p = false := by simpa [hsw] using hp5
    have hwl : WFList (certExtensions i.H i.p i.subject i.issuer) := by
      simp only [tbsCertificate, tbsCertificateFields, hsw, if_true, Asn1.seq, Asn1.explicit,
        Asn1.WF, WFList, List.cons_append, List.nil_append] at hwf
      exact hwf.2.2.2.2.2.2.2.2.2.2.1.2.2.2.1.2.2.2
    have hd := exts_decode i hwl hex hc
    have hne := exts_nonempty i.H i.p i.subject i.issuer hsw
    simp only [Option.bind, tbsCertificate, tbsCertificateFields, hsw, Asn1.seq, Asn1.explicit,
      algIdent, spkiNode, List.cons_append, List.nil_append, if_true,
      decodeTbsCertTree, ver, ser, n1, n2, t1, t2, modelTbs, spkiDer, decodeExts, hd]
    simp [hne]

/-! ### the decoded extensions are exactly the requested ones -/

def customOids (i : CertInputs) : List (List Nat) := i.p.customExts.map (·.oid)

theorem not_custom (i : CertInputs) (hc : ∀ e ∈ i.p.customExts, e.oid ∉ knownOids)
    (o : List Nat) (ho : o ∈ knownOids) : o ∉ customOids i := by
  intro h
  simp only [customOids, List.mem_map] at h
  obtain ⟨e, he, rfl⟩ := h
  exact hc e he ho

def strip (custom : List (List Nat)) (l : List Ext) : List Ext :=
  (l.filter (fun e => e.oid != oidSki)).map (normExt custom)

theorem strip_append (c : List (List Nat)) (a b : List Ext) :
    strip c (a ++ b) = strip c a ++ strip c b := by simp [strip]

theorem strip_std (c : List (List Nat)) (o : List Nat) (cr : Bool) (v : ExtValue)
    (hs : o ≠ oidSki) (hn : o ∉ c) : strip c [⟨o, cr, v⟩] = [⟨o, false, v⟩] := by
  simp [strip, hs, normExt, hn]

theorem strip_ite (c : List (List Nat)) (b : Bool) (o : List Nat) (cr : Bool) (v : ExtValue)
    (hs : o ≠ oidSki) (hn : o ∉ c) :
    strip c (if b then [] else [⟨o, cr, v⟩]) = if b then [] else [⟨o, false, v⟩] := by
  cases b
  · simpa using strip_std c o cr v hs hn
  · rfl

theorem strip_custom (i : CertInputs) (hc : ∀ e ∈ i.p.customExts, e.oid ∉ knownOids) :
    strip (customOids i) (i.p.customExts.map (fun e => ⟨e.oid, e.critical, .opaque e.content⟩)) =
      i.p.customExts.map (fun e => ⟨e.oid, e.critical, .opaque e.content⟩) := by
  unfold strip
  have hf : (i.p.customExts.map (fun e => (⟨e.oid, e.critical, .opaque e.content⟩ : Ext))).filter
      (fun e => e.oid != oidSki) =
      i.p.customExts.map (fun e => ⟨e.oid, e.critical, .opaque e.content⟩) := by
    rw [List.filter_eq_self]
    intro x hx
    obtain ⟨e, he, rfl⟩ := List.mem_map.1 hx
    have : e.oid ≠ oidSki := fun h => hc e he (by rw [h]; decide)
    simpa using this
  rw [hf, List.map_map]
  apply List.map_congr_left
  intro e he
  have : e.oid ∈ customOids i := by
    simp only [customOids, List.mem_map]
    exact ⟨e, he, rfl⟩
  simp [normExt, this]

theorem strip_model (i : CertInputs) (hc : ∀ e ∈ i.p.customExts, e.oid ∉ knownOids) :
    strip (customOids i) (modelExts i) = reqExts i := by
  have nk := not_custom i hc
  unfold modelExts reqExts
  simp only [strip_append]
  congr 1
  · congr 1
    · congr 1
      · congr 1
        · congr 1
          · congr 1
            · congr 1
              · cases i.p.useAki
                · rfl
                · simp only [if_true]
                  rw [strip_std _ _ _ _ (by decide) (nk _ (by decide)), akiValue_eq]
              · exact strip_ite _ _ _ _ _ (by decide) (nk _ (by decide))
            · exact strip_ite _ _ _ _ _ (by decide) (nk _ (by decide))
          · exact strip_ite _ _ _ _ _ (by decide) (nk _ (by decide))
        · cases i.p.nameConstraints with
          | none => rfl
          | some nc =>
            simp only
            have := strip_ite (customOids i) nc.isEmpty oidNameConstraints true
              (.nameConstraints (nc.permitted.map (reqSubtree enumOf))
                (nc.excluded.map (reqSubtree enumOf))) (by decide) (nk _ (by decide))
            simpa [NameConstraints.isEmpty] using this
      · exact strip_ite _ _ _ _ _ (by decide) (nk _ (by decide))
    · have nbc := nk [2, 5, 29, 19] (by decide)
      cases i.p.isCa with
      | noCa => rfl
      | explicitNoCa => simp [strip, oidSki, oidBasicConstraints, normExt, nbc]
      | ca pl => simp [strip, oidSki, oidBasicConstraints, normExt, nbc]
  · exact strip_custom i hc

/-- the subject key identifier extensions among the decoded ones -/
theorem skis_model (i : CertInputs) (hc : ∀ e ∈ i.p.customExts, e.oid ∉ knownOids) :
    (modelExts i).filter (fun e => e.oid == oidSki) =
      (match i.p.isCa with
       | .noCa => []
       | _ => [⟨oidSki, false, .ski (i.p.keyIdMethod.derive i.H (spkiDer i.subject))⟩]) := by
  have hcu : (i.p.customExts.map (fun e => (⟨e.oid, e.critical, .opaque e.content⟩ : Ext))).filter
      (fun e => e.oid == oidSki) = [] := by
    rw [List.filter_eq_nil_iff]
    intro x hx
    obtain ⟨e, he, rfl⟩ := List.mem_map.1 hx
    have : e.oid ≠ oidSki := fun h => hc e he (by rw [h]; decide)
    simpa using this
  unfold modelExts
  simp only [List.filter_append, hcu, List.append_nil]
  have f1 : ∀ (b : Bool) (o : List Nat) (cr : Bool) (v : ExtValue), o ≠ oidSki →
      (if b then [] else [(⟨o, cr, v⟩ : Ext)]).filter (fun e => e.oid == oidSki) = [] := by
    intro b o cr v hx; cases b <;> simp [hx]
  rw [f1 _ _ _ _ (by decide), f1 _ _ _ _ (by decide), f1 _ _ _ _ (by decide),
    f1 _ _ _ _ (by decide)]
  have f0 : (if i.p.useAki then
      [(⟨oidAki, false, .aki (some (akiValue i.H i.issuer))⟩ : Ext)] else []).filter
      (fun e => e.oid == oidSki) = [] := by
    cases i.p.useAki <;> simp [oidAki, oidSki]
  rw [f0]
  have f5 : (match i.p.nameConstraints with
      | none => []
      | some nc => if nc.isEmpty then [] else
        [(⟨oidNameConstraints, true, .nameConstraints (nc.permitted.map (reqSubtree enumOf))
          (nc.excluded.map (reqSubtree enumOf))⟩ : Ext)]).filter
        (fun (e : Ext) => e.oid == oidSki) = [] := by
    cases i.p.nameConstraints with
    | none => rfl
    | some nc => exact f1 _ oidNameConstraints _ _ (by decide)
  rw [f5]
  cases i.p.isCa <;> simp [oidSki, oidBasicConstraints]

theorem isPermOf_self {α : Type} [DecidableEq α] (l : List α) : isPermOf l l = true := by
  simp [isPermOf]

theorem derive_reqKeyId (H : Hashes) (m : KeyIdMethod) (x : Bytes) :
    m.derive H x = reqKeyId H m x := by cases m <;> rfl

/-- **a certificate says exactly what its parameters say**: every clause of `Spec.c02Clauses`
    holds of the encoded `tbsCertificate` -/
theorem c02_clauses_hold (i : CertInputs)
    (hinv : certInvalid i.p i.issuer = none)
    (hnp : certPanics i.p i.issuer = false)
    (hc : ∀ e ∈ i.p.customExts, e.oid ∉ knownOids)
    (hsize : (encode (tbsCertificate i.H i.p i.subject i.issuer)).length < 256 ^ 126) :
    c02Clauses i (encode (tbsCertificate i.H i.p i.subject i.issuer)) = [] := by
  unfold c02Clauses
  rw [tbs_decodes i hinv hnp hc hsize]
  have h1 := strip_model i hc
  have h2 := skis_model i hc
  unfold strip customOids at h1
  simp only [modelTbs, h1, h2, isPermOf_self, clause, beq_self_eq_true, if_true, List.nil_append,
    reqTime, spki_is_rfc, enumOf]
  cases i.p.isCa <;> simp [derive_reqKeyId]

theorem timeFieldOk_reqTime (dt : DateTime) : timeFieldOk dt (reqTime dt) = true := by
  unfold timeFieldOk reqTime Theorems.C09.utcYear
  simp only [beq_self_eq_true, Bool.true_and]

/-- C09 on a whole certificate -/
theorem c09_cert_clauses_hold (i : CertInputs)
    (hinv : certInvalid i.p i.issuer = none)
    (hnp : certPanics i.p i.issuer = false)
    (hc : ∀ e ∈ i.p.customExts, e.oid ∉ knownOids)
    (hsize : (encode (tbsCertificate i.H i.p i.subject i.issuer)).length < 256 ^ 126) :
    c09CertClauses i (encode (tbsCertificate i.H i.p i.subject i.issuer)) = [] := by
  unfold c09CertClauses
  rw [tbs_decodes i hinv hnp hc hsize]
  simp only [modelTbs, clause, timeFieldOk_reqTime, if_true, List.nil_append]

end Rcgen.Proofs.CertDecode
