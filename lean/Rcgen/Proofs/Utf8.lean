import Rcgen.Spec.Der
import Rcgen.Model.Strings
/-
  The UTF-8 encoding of any text is well-formed UTF-8 in the sense of `Spec.utf8Valid` (no
  overlong forms, no surrogates, at most U+10FFFF): the invariant of Rust's `String`, which is
  the hypothesis the canonicity theorems take about UTF8String values.
-/
namespace Rcgen.Proofs.Utf8
open Rcgen Rcgen.Model Rcgen.Spec

theorem u8 (n : Nat) (h : n < 256) : (UInt8.ofNat n).toNat = n := by
  simp [UInt8.toNat_ofNat, Nat.mod_eq_of_lt h]

theorem char_valid (c : Char) : c.val.toNat < 55296 ∨ (57343 < c.val.toNat ∧ c.val.toNat < 1114112) := by
  have := c.valid
  simp only [UInt32.isValidChar, Nat.isValidChar] at this
  omega

theorem utf8Valid_encodeChar (c : Char) (rest : Bytes) :
    utf8Valid (String.utf8EncodeChar c ++ rest) = utf8Valid rest := by
  have hv := char_valid c
  unfold String.utf8EncodeChar
  simp only
  generalize c.val.toNat = v at hv ⊢
  by_cases h1 : v ≤ 0x7f
  · simp only [h1, if_true, List.singleton_append]
    conv => lhs; unfold utf8Valid
    have : (UInt8.ofNat v).toNat = v := u8 v (by omega)
    simp only [this]
    have : v < 128 := by omega
    simp [this]
  · by_cases h2 : v ≤ 0x7ff
    · simp only [h1, h2, if_true, if_false, List.cons_append, List.nil_append]
      have b0 : (UInt8.ofNat (v / 64 % 0x20 + 0xc0)).toNat = v / 64 % 32 + 192 := u8 _ (by omega)
      have b1 : (UInt8.ofNat (v % 0x40 + 0x80)).toNat = v % 64 + 128 := u8 _ (by omega)
      conv => lhs; unfold utf8Valid
      simp only [b0, b1]
      have e1 : ¬ (v / 64 % 32 + 192 < 128) := by omega
      have e2 : 194 ≤ v / 64 % 32 + 192 ∧ v / 64 % 32 + 192 ≤ 223 := by omega
      have e3 : (decide (128 ≤ v % 64 + 128) && decide (v % 64 + 128 ≤ 191)) = true := by
        simp; omega
      simp only [e1, e2, and_self, if_true, if_false, e3, Bool.true_and]
    · by_cases h3 : v ≤ 0xffff
      · simp only [h1, h2, h3, if_true, if_false, List.cons_append, List.nil_append]
        have b0 : (UInt8.ofNat (v / 4096 % 0x10 + 0xe0)).toNat = v / 4096 % 16 + 224 := u8 _ (by omega)
        have b1 : (UInt8.ofNat (v / 64 % 0x40 + 0x80)).toNat = v / 64 % 64 + 128 := u8 _ (by omega)
        have b2 : (UInt8.ofNat (v % 0x40 + 0x80)).toNat = v % 64 + 128 := u8 _ (by omega)
        conv => lhs; unfold utf8Valid
        simp only [b0, b1, b2]
        have e1 : ¬ (v / 4096 % 16 + 224 < 128) := by omega
        have e2 : ¬ (194 ≤ v / 4096 % 16 + 224 ∧ v / 4096 % 16 + 224 ≤ 223) := by omega
        have e3 : 224 ≤ v / 4096 % 16 + 224 ∧ v / 4096 % 16 + 224 ≤ 239 := by omega
        simp only [e1, e2, e3, and_self, if_true, if_false]
        have lo : (if (v / 4096 % 16 + 224 == 224) = true then 160 else 128) ≤ v / 64 % 64 + 128 := by
          split
          · rename_i h; simp at h; omega
          · omega
        have hi : v / 64 % 64 + 128 ≤ (if (v / 4096 % 16 + 224 == 237) = true then 159 else 191) := by
          split
          · rename_i h; simp at h; omega
          · omega
        have c2 : (decide (128 ≤ v % 64 + 128) && decide (v % 64 + 128 ≤ 191)) = true := by simp; omega
        simp only [lo, hi, decide_true, Bool.and_self, c2, Bool.true_and]
      · simp only [h1, h2, h3, if_false, List.cons_append, List.nil_append]
        have b0 : (UInt8.ofNat (v / 262144 % 0x08 + 0xf0)).toNat = v / 262144 % 8 + 240 := u8 _ (by omega)
        have b1 : (UInt8.ofNat (v / 4096 % 0x40 + 0x80)).toNat = v / 4096 % 64 + 128 := u8 _ (by omega)
        have b2 : (UInt8.ofNat (v / 64 % 0x40 + 0x80)).toNat = v / 64 % 64 + 128 := u8 _ (by omega)
        have b3 : (UInt8.ofNat (v % 0x40 + 0x80)).toNat = v % 64 + 128 := u8 _ (by omega)
        conv => lhs; unfold utf8Valid
        simp only [b0, b1, b2, b3]
        have e1 : ¬ (v / 262144 % 8 + 240 < 128) := by omega
        have e2 : ¬ (194 ≤ v / 262144 % 8 + 240 ∧ v / 262144 % 8 + 240 ≤ 223) := by omega
        have e3 : ¬ (224 ≤ v / 262144 % 8 + 240 ∧ v / 262144 % 8 + 240 ≤ 239) := by omega
        have e4 : 240 ≤ v / 262144 % 8 + 240 ∧ v / 262144 % 8 + 240 ≤ 244 := by omega
        simp only [e1, e2, e3, e4, and_self, if_true, if_false]
        have lo : (if (v / 262144 % 8 + 240 == 240) = true then 144 else 128) ≤ v / 4096 % 64 + 128 := by
          split
          · rename_i h; simp at h; omega
          · omega
        have hi : v / 4096 % 64 + 128 ≤ (if (v / 262144 % 8 + 240 == 244) = true then 143 else 191) := by
          split
          · rename_i h; simp at h; omega
          · omega
        have c2 : (decide (128 ≤ v / 64 % 64 + 128) && decide (v / 64 % 64 + 128 ≤ 191)) = true := by simp; omega
        have c3 : (decide (128 ≤ v % 64 + 128) && decide (v % 64 + 128 ≤ 191)) = true := by simp; omega
        simp only [lo, hi, decide_true, Bool.and_self, c2, c3, Bool.true_and]

/-- **the UTF-8 bytes of any text are well-formed UTF-8** -/
theorem utf8Valid_utf8 (s : List Char) : utf8Valid (utf8 s) = true := by
  induction s with
  | nil => rfl
  | cons c s ih =>
    simp only [utf8, List.flatMap_cons] at ih ⊢
    rw [utf8Valid_encodeChar, ih]

end Rcgen.Proofs.Utf8
