import Rcgen.Spec.X509
import Rcgen.Spec.Props
/-
  RFC 5280 §6.1 certification path validation, restricted to the constraint kinds rcgen can
  emit: basic constraints and path length, validity, DNS and IP name constraints (§4.2.1.10
  matching rules), extended key usage against a purpose, keyCertSign on CAs.
  `anchorChecks` selects whether the trust anchor certificate is itself subjected to the CA /
  key-usage / validity / path-length checks (OpenSSL does; RFC 5280 and webpki take only its
  name, key and name constraints); `kuCheck` whether keyCertSign is required of CAs (OpenSSL
  does, webpki documents that it does not look at key usage).
-/
namespace Rcgen.Spec

/-- what a relying party asks a certificate to be good for: each of the standard purposes -/
inductive Purpose | serverAuth | clientAuth | codeSigning | emailProtection | timeStamping | ocspSigning
  deriving DecidableEq, Repr

def Purpose.oid : Purpose → List Nat
  | .serverAuth => [1, 3, 6, 1, 5, 5, 7, 3, 1]
  | .clientAuth => [1, 3, 6, 1, 5, 5, 7, 3, 2]
  | .codeSigning => [1, 3, 6, 1, 5, 5, 7, 3, 3]
  | .emailProtection => [1, 3, 6, 1, 5, 5, 7, 3, 4]
  | .timeStamping => [1, 3, 6, 1, 5, 5, 7, 3, 8]
  | .ocspSigning => [1, 3, 6, 1, 5, 5, 7, 3, 9]

def findExt (c : TbsCert) (oid : List Nat) : Option ExtValue :=
  (c.exts.find? (fun e => e.oid == oid)).map (·.value)

def isCaCert (c : TbsCert) : Bool :=
  match findExt c [2, 5, 29, 19] with
  | some (.basicConstraints ca _) => ca
  | _ => false

def pathLen (c : TbsCert) : Option Nat :=
  match findExt c [2, 5, 29, 19] with
  | some (.basicConstraints _ pl) => pl
  | _ => none

/-- key usage absent, or keyCertSign (bit 5) asserted -/
def mayCertSign (c : TbsCert) : Bool :=
  match findExt c [2, 5, 29, 15] with
  | some (.keyUsage bits) => bits.contains 5
  | _ => true

def timeValid (c : TbsCert) (t : Int) : Bool := c.notBefore.2 ≤ t && t ≤ c.notAfter.2

/-- EKU absent, or the purpose listed -/
def ekuAllows (c : TbsCert) (p : Purpose) : Bool :=
  match findExt c [2, 5, 29, 37] with
  | some (.eku oids) => oids.contains p.oid
  | _ => true

def lower (b : UInt8) : UInt8 := if 65 ≤ b.toNat ∧ b.toNat ≤ 90 then UInt8.ofNat (b.toNat + 32) else b

/-- §4.2.1.10 dNSName: the name is the constraint, or the constraint preceded by more labels.
    (A constraint starting with '.' admits proper subdomains only.) -/
def dnsInSubtree (name constraint : Bytes) : Bool :=
  let n := name.map lower
  let c := constraint.map lower
  if c.isEmpty then true
  else if c.head? == some 46 then
    n.length > c.length && n.drop (n.length - c.length) == c
  else
    n == c || (n.length > c.length && n.drop (n.length - c.length) == c &&
               n[n.length - c.length - 1]? == some 46)

/-- §4.2.1.10 iPAddress: constraint = address ++ mask; match iff equal under the mask -/
def ipInSubnet (addr constraint : Bytes) : Bool :=
  constraint.length == 2 * addr.length &&
  let base := constraint.take addr.length
  let mask := constraint.drop addr.length
  (List.zip (List.zip addr base) mask).all (fun ((a, b), m) => (a.toNat &&& m.toNat) == (b.toNat &&& m.toNat))

def nameMatches (leafName subtree : GName) : Option Bool :=
  match leafName, subtree with
  | .dns n, .dns c => some (dnsInSubtree n c)
  | .ip a, .ip c => some (ipInSubnet a c)   -- iPAddress is one name form: a v6 name never
                                            -- matches a v4 subnet, and vice versa
  | _, _ => none      -- different name forms: the subtree does not speak about this name

def sameForm : GName → GName → Bool
  | .dns _, .dns _ => true
  | .ip _, .ip _ => true
  | .rfc822 _, .rfc822 _ => true
  | .dirName _, .dirName _ => true
  | .uri _, .uri _ => true
  | _, _ => false

/-- one name against one NameConstraints value -/
def nameAllowed (name : GName) (permitted excluded : List GName) : Bool :=
  let perm := permitted.filter (sameForm name)
  (perm.isEmpty || perm.any (fun s => nameMatches name s == some true)) &&
  !(excluded.any (fun s => nameMatches name s == some true))

def leafNames (leaf : TbsCert) : List GName :=
  match findExt leaf [2, 5, 29, 17] with
  | some (.san names) => names
  | _ => []

def ncAllowsLeaf (ca leaf : TbsCert) : Bool :=
  match findExt ca [2, 5, 29, 30] with
  | some (.nameConstraints p e) => (leafNames leaf).all (fun n => nameAllowed n p e)
  | _ => true

/-- validate `anchor :: intermediates ++ [leaf]` at time `t` for purpose `p` -/
def validate (anchorChecks kuCheck : Bool) (chain : List TbsCert) (t : Int) (p : Purpose) : Bool :=
  match chain.reverse with
  | [] => false
  | [_] => false
  | leaf :: casRev =>
    let cas := casRev.reverse                    -- anchor first
    let nCas := cas.length
    -- names chain
    (List.zip cas (cas.drop 1 ++ [leaf])).all (fun (i, s) => s.issuer == i.subject) &&
    timeValid leaf t && ekuAllows leaf p &&
    -- every CA below the anchor, and the anchor too when `anchorChecks`
    (List.zip cas (List.range nCas)).all (fun (c, idx) =>
      let checked := idx > 0 || anchorChecks
      let below := nCas - 1 - idx               -- intermediates between this CA and the leaf
      (!checked ||
        (isCaCert c && (!kuCheck || mayCertSign c) && timeValid c t &&
         (match pathLen c with | some n => below ≤ n | none => true))) &&
      ncAllowsLeaf c leaf)

end Rcgen.Spec

namespace Rcgen.Spec
open Rcgen.Model

/-! ### the verdict the *parameters* imply -/

def pIsCa (p : CertParams) : Bool := match p.isCa with | .ca _ => true | _ => false
def pPathLen (p : CertParams) : Option Nat := match p.isCa with | .ca pl => pl | _ => none
def pMayCertSign (p : CertParams) : Bool := p.keyUsages.isEmpty || p.keyUsages.contains .keyCertSign
def pTimeValid (p : CertParams) (t : Int) : Bool :=
  p.notBefore.epochSeconds ≤ t && t ≤ p.notAfter.epochSeconds
def pEkuAllows (p : CertParams) (u : Purpose) : Bool :=
  p.ekus.isEmpty || p.ekus.any (fun e => rfcEkuOid e == u.oid)

def pNcAllowsLeaf (ca leaf : CertParams) : Bool :=
  match ca.nameConstraints with
  | some nc =>
    if nc.permitted.isEmpty && nc.excluded.isEmpty then true else
    leaf.sans.all (fun s => nameAllowed (reqSan s) (nc.permitted.map (reqSubtree enumOf))
      (nc.excluded.map (reqSubtree enumOf)))
  | none => true

/-- `ps` = anchor parameters first, leaf parameters last; each certificate is issued by the one
    before it (the anchor by itself) -/
def expectedVerdict (anchorChecks kuCheck : Bool) (ps : List CertParams) (t : Int) (u : Purpose) : Bool :=
  match ps.reverse with
  | [] => false
  | [_] => false
  | leaf :: casRev =>
    let cas := casRev.reverse
    let nCas := cas.length
    pTimeValid leaf t && pEkuAllows leaf u &&
    (List.zip cas (List.range nCas)).all (fun (c, idx) =>
      let checked := idx > 0 || anchorChecks
      let below := nCas - 1 - idx
      (!checked ||
        (pIsCa c && (!kuCheck || pMayCertSign c) && pTimeValid c t &&
         (match pPathLen c with | some n => below ≤ n | none => true))) &&
      pNcAllowsLeaf c leaf)

end Rcgen.Spec
