import Rcgen.Base.Der
import Rcgen.Base.Date
/-
  Specification side, written from X.690 / RFC 5280, not from rcgen:
  leaf readers over a strictly decoded TLV tree, and the per-type canonicity rules of DER.
  (`Rcgen.decode` already enforces definite minimal lengths, low tag numbers, no trailing
  bytes; what is left are the content rules.)
-/
namespace Rcgen.Spec

/-! ### leaf readers -/

def asSeq : Asn1 → Option (List Asn1)
  | .cons 0 16 k => some k
  | _ => none

def asSet : Asn1 → Option (List Asn1)
  | .cons 0 17 k => some k
  | _ => none

def asOctets : Asn1 → Option Bytes
  | .prim 0 4 c => some c
  | _ => none

def asBool : Asn1 → Option Bool
  | .prim 0 1 [b] => some (b != 0)
  | _ => none

/-- unsigned value of a non-negative INTEGER (none if negative) -/
def natOfIntContent (c : Bytes) : Option Nat :=
  match c with
  | [] => none
  | b :: _ => if b.toNat ≥ 128 then none else some (ofBe c)

def asNat : Asn1 → Option Nat
  | .prim 0 2 c => natOfIntContent c
  | _ => none

def asEnum : Asn1 → Option Nat
  | .prim 0 10 c => natOfIntContent c
  | _ => none

/-- split base-128 groups: each sub-identifier ends at a byte without the continuation bit -/
def subIds : Bytes → Nat → Bool → Option (List Nat)
  | [], _, pending => if pending then none else some []
  | b :: rest, acc, _ =>
    let v := acc * 128 + b.toNat % 128
    if b.toNat ≥ 128 then subIds rest v true
    else
      match subIds rest 0 false with
      | some r => some (v :: r)
      | none => none

def oidArcs (c : Bytes) : Option (List Nat) :=
  match subIds c 0 false with
  | some (first :: rest) =>
    if first < 40 then some (0 :: first :: rest)
    else if first < 80 then some (1 :: (first - 40) :: rest)
    else some (2 :: (first - 80) :: rest)
  | _ => none

/-- every sub-identifier minimal (no leading 0x80) and the content ends a group -/
def oidMinimal (c : Bytes) : Bool :=
  let rec go (bs : Bytes) (start : Bool) : Bool :=
    match bs with
    | [] => start
    | b :: rest =>
      if start && b.toNat == 128 then false
      else go rest (b.toNat < 128)
  !c.isEmpty && go c true

/-- OBJECT IDENTIFIER in DER: every sub-identifier in its shortest form (X.690 §8.19.2) -/
def asOid : Asn1 → Option (List Nat)
  | .prim 0 6 c => if oidMinimal c then oidArcs c else none
  | _ => none

/-- BIT STRING as (unused bit count, octets) -/
def asBitString : Asn1 → Option (Nat × Bytes)
  | .prim 0 3 (u :: bs) => some (u.toNat, bs)
  | _ => none

/-- indices of the bits set in a named-bit list -/
def namedBits (unused : Nat) (bs : Bytes) : List Nat :=
  let total := 8 * bs.length - unused
  (List.range total).filter fun i =>
    match bs[i / 8]? with
    | some b => (b.toNat >>> (7 - i % 8)) % 2 == 1
    | none => false

inductive TimeForm | utc | generalized
  deriving DecidableEq, Repr

def digitVal (b : UInt8) : Option Nat :=
  if 48 ≤ b.toNat ∧ b.toNat ≤ 57 then some (b.toNat - 48) else none

def digitsVal : Bytes → Option Nat
  | [] => some 0
  | bs => bs.foldl (fun acc b => match acc, digitVal b with
      | some a, some d => some (a * 10 + d)
      | _, _ => none) (some 0)

/-- seconds since the epoch of Y-M-D h:m:s UTC, if the fields form a valid date and time -/
def epochOfFields (y : Int) (mo d h mi s : Nat) : Option Int :=
  if 1 ≤ mo ∧ mo ≤ 12 ∧ 1 ≤ d ∧ d ≤ daysInMonth y mo ∧ h < 24 ∧ mi < 60 ∧ s < 60 then
    some (daysFromCivil y mo d * 86400 + (h : Int) * 3600 + (mi : Int) * 60 + (s : Int))
  else none

/-- RFC 5280 §4.1.2.5.1: `YYMMDDHHMMSSZ`, YY ≥ 50 ⇒ 19YY else 20YY -/
def parseUtcTime (c : Bytes) : Option Int :=
  if c.length = 13 ∧ c[12]? = some 90 then
    match digitsVal (c.take 2), digitsVal ((c.drop 2).take 2), digitsVal ((c.drop 4).take 2),
          digitsVal ((c.drop 6).take 2), digitsVal ((c.drop 8).take 2),
          digitsVal ((c.drop 10).take 2) with
    | some yy, some mo, some d, some h, some mi, some s =>
      epochOfFields (if yy ≥ 50 then 1900 + (yy : Int) else 2000 + (yy : Int)) mo d h mi s
    | _, _, _, _, _, _ => none
  else none

/-- RFC 5280 §4.1.2.5.2: `YYYYMMDDHHMMSSZ`, no fraction -/
def parseGeneralizedTime (c : Bytes) : Option Int :=
  if c.length = 15 ∧ c[14]? = some 90 then
    match digitsVal (c.take 4), digitsVal ((c.drop 4).take 2), digitsVal ((c.drop 6).take 2),
          digitsVal ((c.drop 8).take 2), digitsVal ((c.drop 10).take 2),
          digitsVal ((c.drop 12).take 2) with
    | some y, some mo, some d, some h, some mi, some s => epochOfFields (y : Int) mo d h mi s
    | _, _, _, _, _, _ => none
  else none

/-- a Time value: its form and the instant it denotes -/
def asTime : Asn1 → Option (TimeForm × Int)
  | .prim 0 23 c => (parseUtcTime c).map (fun t => (TimeForm.utc, t))
  | .prim 0 24 c => (parseGeneralizedTime c).map (fun t => (TimeForm.generalized, t))
  | _ => none

/-! ### DER content rules, per universal type -/

def intMinimal (c : Bytes) : Bool :=
  match c with
  | [] => false
  | [_] => true
  | a :: b :: _ =>
    !((a.toNat == 0 && b.toNat < 128) || (a.toNat == 255 && b.toNat ≥ 128))

def bitStringCanonical (c : Bytes) : Bool :=
  match c with
  | [] => false
  | u :: bs =>
    u.toNat < 8 &&
    (match bs.getLast? with
     | none => u.toNat == 0
     | some last => last.toNat % (2 ^ u.toNat) == 0)

def printableChar (b : UInt8) : Bool :=
  let n := b.toNat
  (65 ≤ n && n ≤ 90) || (97 ≤ n && n ≤ 122) || (48 ≤ n && n ≤ 57) || n == 32 ||
  n == 39 || n == 40 || n == 41 || n == 43 || n == 44 || n == 45 || n == 46 || n == 47 ||
  n == 58 || n == 61 || n == 63

/-- well-formed UTF-8 (no overlongs, no surrogates, ≤ U+10FFFF) -/
def utf8Valid : Bytes → Bool
  | [] => true
  | a :: rest =>
    let x := a.toNat
    if x < 128 then utf8Valid rest
    else if 194 ≤ x ∧ x ≤ 223 then
      match rest with
      | b :: r => (128 ≤ b.toNat && b.toNat ≤ 191) && utf8Valid r
      | _ => false
    else if 224 ≤ x ∧ x ≤ 239 then
      match rest with
      | b :: c :: r =>
        let lo := if x == 224 then 160 else 128
        let hi := if x == 237 then 159 else 191
        (lo ≤ b.toNat && b.toNat ≤ hi) && (128 ≤ c.toNat && c.toNat ≤ 191) && utf8Valid r
      | _ => false
    else if 240 ≤ x ∧ x ≤ 244 then
      match rest with
      | b :: c :: d :: r =>
        let lo := if x == 240 then 144 else 128
        let hi := if x == 244 then 143 else 191
        (lo ≤ b.toNat && b.toNat ≤ hi) && (128 ≤ c.toNat && c.toNat ≤ 191) &&
        (128 ≤ d.toNat && d.toNat ≤ 191) && utf8Valid r
      | _ => false
    else false

def pairsOk : Bytes → Bool
  | [] => true
  | [_] => false
  | a :: b :: rest =>
    let u := a.toNat * 256 + b.toNat
    !(55296 ≤ u && u ≤ 57343) && u != 65535 && pairsOk rest

def quadsOk : Bytes → Bool
  | [] => true
  | a :: b :: c :: d :: rest =>
    let v := a.toNat * 16777216 + b.toNat * 65536 + c.toNat * 256 + d.toNat
    (v < 55296 || (57343 < v && v < 1114112)) && quadsOk rest
  | _ => false

def sortedBy (le : Bytes → Bytes → Bool) : List Bytes → Bool
  | [] => true
  | [_] => true
  | a :: b :: rest => le a b && sortedBy le (b :: rest)

/-- content rule of a primitive universal type (other classes: no rule at this layer) -/
def primCanonical (cls num : Nat) (c : Bytes) : Bool :=
  if cls ≠ 0 then true else
  match num with
  | 1 => c == [0] || c == [255]
  | 2 | 10 => intMinimal c
  | 3 => bitStringCanonical c
  | 4 => true
  | 5 => c.isEmpty
  | 6 => oidMinimal c && (oidArcs c).isSome
  | 12 => utf8Valid c
  | 19 => c.all printableChar
  | 20 => c.all (fun b => 32 ≤ b.toNat && b.toNat ≤ 127)
  | 22 => c.all (fun b => b.toNat < 128)
  | 23 => (parseUtcTime c).isSome
  | 24 => (parseGeneralizedTime c).isSome
  | 28 => quadsOk c
  | 30 => pairsOk c
  | _ => false          -- a universal type this profile never uses

mutual
/-- generic DER canonicity of a decoded tree: leaf content rules, SET (OF) ordering,
    universal SEQUENCE/SET constructed, universal strings primitive -/
def canonical : Asn1 → Bool
  | .prim cls num c => primCanonical cls num c && !(cls == 0 && (num == 16 || num == 17))
  | .cons cls num kids =>
    canonicalList kids &&
    (if cls == 0 then
      (num == 16 || (num == 17 && sortedBy bytesLe (kids.map encode)))
     else true)
  | .raw _ => false
def canonicalList : List Asn1 → Bool
  | [] => true
  | t :: ts => canonical t && canonicalList ts
end

end Rcgen.Spec
