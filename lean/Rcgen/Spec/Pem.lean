import Rcgen.Base.Bytes
/-
  A strict RFC 7468 decoder (the "strict" grammar of §3): exact BEGIN/END lines with matching
  labels, base64 lines of exactly 64 characters except the last (1..64), no characters outside
  the alphabet, canonical padding (pad bits zero), LF line endings, nothing after the END line.
-/
namespace Rcgen.Spec

def b64Val (c : UInt8) : Option Nat :=
  let n := c.toNat
  if 65 ≤ n ∧ n ≤ 90 then some (n - 65)
  else if 97 ≤ n ∧ n ≤ 122 then some (n - 97 + 26)
  else if 48 ≤ n ∧ n ≤ 57 then some (n - 48 + 52)
  else if n = 43 then some 62
  else if n = 47 then some 63
  else none

/-- strict base64: groups of four; padding only in the final group, pad bits zero -/
def b64Decode : Bytes → Option Bytes
  | [] => some []
  | [a, b, c, d] =>
    match b64Val a, b64Val b with
    | some x, some y =>
      if c = 61 ∧ d = 61 then
        (if y % 16 = 0 then some [UInt8.ofNat (x * 4 + y / 16)] else none)
      else match b64Val c with
        | some z =>
          if d = 61 then
            (if z % 4 = 0 then some [UInt8.ofNat (x * 4 + y / 16), UInt8.ofNat (y % 16 * 16 + z / 4)]
             else none)
          else match b64Val d with
            | some w => some [UInt8.ofNat (x * 4 + y / 16), UInt8.ofNat (y % 16 * 16 + z / 4),
                              UInt8.ofNat (z % 4 * 64 + w)]
            | none => none
        | none => none
    | _, _ => none
  | a :: b :: c :: d :: rest =>
    match b64Val a, b64Val b, b64Val c, b64Val d, b64Decode rest with
    | some x, some y, some z, some w, some r =>
      some (UInt8.ofNat (x * 4 + y / 16) :: UInt8.ofNat (y % 16 * 16 + z / 4) ::
            UInt8.ofNat (z % 4 * 64 + w) :: r)
    | _, _, _, _, _ => none
  | _ => none

/-- split at every LF -/
def splitLf : Bytes → List Bytes
  | [] => [[]]
  | b :: rest =>
    match splitLf rest with
    | [] => [[b]]          -- unreachable
    | l :: ls => if b = 10 then [] :: l :: ls else (b :: l) :: ls

def dashes : Bytes := [45, 45, 45, 45, 45]
def beginPrefix : Bytes := dashes ++ [66, 69, 71, 73, 78, 32]
def endPrefix : Bytes := dashes ++ [69, 78, 68, 32]

/-- `pre ++ label ++ "-----"` → label -/
def stripLine (pre : Bytes) (line : Bytes) : Option Bytes :=
  if line.take pre.length = pre ∧ pre.length + 5 ≤ line.length ∧
     line.drop (line.length - 5) = dashes then
    some ((line.drop pre.length).take (line.length - pre.length - 5))
  else none

/-- all body lines have exactly 64 characters except the last, which has 1..64 -/
def bodyShape : List Bytes → Bool
  | [] => true
  | [l] => 1 ≤ l.length && l.length ≤ 64
  | l :: rest => l.length == 64 && bodyShape rest

def pemDecode (text : Bytes) : Option (Bytes × Bytes) :=
  match splitLf text with
  | first :: rest =>
    match rest.reverse with
    | [] :: last :: bodyRev =>
      match stripLine beginPrefix first, stripLine endPrefix last with
      | some l1, some l2 =>
        if l1 = l2 ∧ bodyShape bodyRev.reverse then
          (b64Decode bodyRev.reverse.flatten).map (fun d => (l1, d))
        else none
      | _, _ => none
    | _ => none
  | [] => none

end Rcgen.Spec
