import Rcgen.Spec.Der
/-
  Typed decoders for RFC 5280 certificates and CRLs and RFC 2986 requests, over a strictly
  decoded tree.  Written from the RFCs' ASN.1 modules; nothing here looks at the model.
-/
namespace Rcgen.Spec

/-- AttributeTypeAndValue: type OID, the universal tag number of the string, its content -/
structure AttrTV where
  oid : List Nat
  tag : Nat
  value : Bytes
  deriving DecidableEq, Repr

/-- RDNSequence -/
abbrev Name := List (List AttrTV)

def isDirectoryStringTag (n : Nat) : Bool :=
  n == 12 || n == 19 || n == 20 || n == 22 || n == 28 || n == 30

def decodeAttrTV : Asn1 → Option AttrTV
  | .cons 0 16 [o, .prim 0 tag c] =>
    match asOid o with
    | some oid => if isDirectoryStringTag tag then some ⟨oid, tag, c⟩ else none
    | none => none
  | _ => none

def decodeRdn : Asn1 → Option (List AttrTV)
  | .cons 0 17 kids => if kids.isEmpty then none else kids.mapM decodeAttrTV
  | _ => none

def decodeName : Asn1 → Option Name
  | .cons 0 16 rdns => rdns.mapM decodeRdn
  | _ => none

inductive GName where
  | other (oid : List Nat) (tag : Nat) (content : Bytes)
  | rfc822 (b : Bytes)
  | dns (b : Bytes)
  | dirName (n : Name)
  | uri (b : Bytes)
  | ip (b : Bytes)
  deriving DecidableEq, Repr

/-- GeneralName ::= CHOICE { otherName [0], rfc822Name [1] IA5String, dNSName [2] IA5String,
    directoryName [4] Name (explicit: Name is a CHOICE), uniformResourceIdentifier [6],
    iPAddress [7] OCTET STRING } -/
def decodeGName : Asn1 → Option GName
  | .cons 2 0 [o, .cons 2 0 [.prim 0 tag c]] =>
    (asOid o).map (fun oid => GName.other oid tag c)
  | .prim 2 1 c => if c.all (fun b => b.toNat < 128) then some (.rfc822 c) else none
  | .prim 2 2 c => if c.all (fun b => b.toNat < 128) then some (.dns c) else none
  | .cons 2 4 [n] => (decodeName n).map GName.dirName
  | .prim 2 6 c => if c.all (fun b => b.toNat < 128) then some (.uri c) else none
  | .prim 2 7 c => some (.ip c)
  | _ => none

inductive ExtValue where
  | aki (keyId : Option Bytes)
  | ski (b : Bytes)
  | keyUsage (bits : List Nat)
  | eku (oids : List (List Nat))
  | basicConstraints (ca : Bool) (pathLen : Option Nat)
  | san (names : List GName)
  | nameConstraints (permitted excluded : List GName)
  | crlDps (dps : List (List GName))
  | crlNumber (n : Nat)
  | idp (names : List GName) (onlyUser onlyCa : Bool)
  | reason (code : Nat)
  | invalidityDate (form : TimeForm) (t : Int)
  | opaque (b : Bytes)
  deriving DecidableEq, Repr

structure Ext where
  oid : List Nat
  critical : Bool
  value : ExtValue
  deriving DecidableEq, Repr

/-- GeneralSubtree ::= SEQUENCE { base GeneralName, minimum [0] DEFAULT 0, maximum [1] OPTIONAL }
    RFC 5280 §4.2.1.10: minimum MUST be zero (so absent in DER), maximum MUST be absent -/
def decodeSubtree : Asn1 → Option GName
  | .cons 0 16 [b] => decodeGName b
  | _ => none

/-- DistributionPointName fullName [0] GeneralNames inside distributionPoint [0] -/
def decodeDpName : Asn1 → Option (List GName)
  | .cons 2 0 [.cons 2 0 names] => names.mapM decodeGName
  | _ => none

/-- DistributionPoint ::= SEQUENCE { distributionPoint [0] DistributionPointName OPTIONAL, … }
    (rcgen writes the name only) -/
def decodeDp : Asn1 → Option (List GName)
  | .cons 0 16 [n] => decodeDpName n
  | _ => none

def decodeExtValue (oid : List Nat) (v : Bytes) : Option ExtValue :=
  match decodeAll v with
  | none => if oid.take 3 == [2, 5, 29] ∧ oid.length == 4 ∧
      [35, 14, 15, 37, 19, 17, 30, 31, 20, 28, 21, 24].contains (oid.getD 3 0)
      then none else some (.opaque v)
  | some t =>
    if oid == [2, 5, 29, 35] then
      match t with
      | .cons 0 16 [] => some (.aki none)
      | .cons 0 16 [.prim 2 0 k] => some (.aki (some k))
      | _ => none
    else if oid == [2, 5, 29, 14] then (asOctets t).map ExtValue.ski
    else if oid == [2, 5, 29, 15] then
      (asBitString t).map (fun (u, bs) => ExtValue.keyUsage (namedBits u bs))
    else if oid == [2, 5, 29, 37] then
      match asSeq t with
      | some kids => if kids.isEmpty then none else (kids.mapM asOid).map ExtValue.eku
      | none => none
    else if oid == [2, 5, 29, 19] then
      match t with
      | .cons 0 16 [] => some (.basicConstraints false none)
      | .cons 0 16 [.prim 0 1 [b]] => some (.basicConstraints (b != 0) none)
      | .cons 0 16 [.prim 0 1 [b], n] => (asNat n).map (fun k => .basicConstraints (b != 0) (some k))
      | .cons 0 16 [.prim 0 2 c] => (natOfIntContent c).map (fun k => .basicConstraints false (some k))
      | _ => none
    else if oid == [2, 5, 29, 17] then
      match asSeq t with
      | some kids => if kids.isEmpty then none else (kids.mapM decodeGName).map ExtValue.san
      | none => none
    else if oid == [2, 5, 29, 30] then
      match t with
      | .cons 0 16 [.cons 2 0 p] => if p.isEmpty then none else (p.mapM decodeSubtree).map (fun x => .nameConstraints x [])
      | .cons 0 16 [.cons 2 1 e] => if e.isEmpty then none else (e.mapM decodeSubtree).map (fun x => .nameConstraints [] x)
      | .cons 0 16 [.cons 2 0 p, .cons 2 1 e] =>
        if p.isEmpty || e.isEmpty then none else
        match p.mapM decodeSubtree, e.mapM decodeSubtree with
        | some a, some b => some (.nameConstraints a b)
        | _, _ => none
      | _ => none
    else if oid == [2, 5, 29, 31] then
      match asSeq t with
      | some dps =>
        if dps.isEmpty then none else
        (dps.mapM decodeDp).map ExtValue.crlDps
      | none => none
    else if oid == [2, 5, 29, 20] then (asNat t).map ExtValue.crlNumber
    else if oid == [2, 5, 29, 28] then
      match t with
      | .cons 0 16 [n] => (decodeDpName n).map (fun x => .idp x false false)
      | .cons 0 16 [n, .prim 2 1 [b]] => (decodeDpName n).map (fun x => .idp x (b != 0) false)
      | .cons 0 16 [n, .prim 2 2 [b]] => (decodeDpName n).map (fun x => .idp x false (b != 0))
      | _ => none
    else if oid == [2, 5, 29, 21] then (asEnum t).map ExtValue.reason
    else if oid == [2, 5, 29, 24] then (asTime t).map (fun (f, i) => ExtValue.invalidityDate f i)
    else some (.opaque v)

/-- Extension ::= SEQUENCE { extnID, critical BOOLEAN DEFAULT FALSE, extnValue OCTET STRING } -/
def decodeExt : Asn1 → Option Ext
  | .cons 0 16 [o, .prim 0 4 v] =>
    match asOid o with
    | some oid => (decodeExtValue oid v).map (fun x => ⟨oid, false, x⟩)
    | none => none
  | .cons 0 16 [o, .prim 0 1 [b], .prim 0 4 v] =>
    match asOid o with
    | some oid => (decodeExtValue oid v).map (fun x => ⟨oid, b != 0, x⟩)
    | none => none
  | _ => none

def decodeExts : Asn1 → Option (List Ext)
  | .cons 0 16 kids => if kids.isEmpty then none else kids.mapM decodeExt
  | _ => none

structure TbsCert where
  version : Nat
  serial : Nat
  sigAlg : Bytes            -- DER of the AlgorithmIdentifier
  issuer : Name
  notBefore : TimeForm × Int
  notAfter : TimeForm × Int
  subject : Name
  spki : Bytes              -- DER of SubjectPublicKeyInfo
  exts : List Ext
  deriving DecidableEq, Repr

def decodeTbsCertTree : Asn1 → Option TbsCert
  | .cons 0 16 (.cons 2 0 [ver] :: ser :: alg :: iss :: .cons 0 16 [nb, na] :: sub :: spki :: rest) =>
    match asNat ver, asNat ser, decodeName iss, asTime nb, asTime na, decodeName sub with
    | some v, some s, some i, some b, some a, some su =>
      match alg, spki with
      | .cons 0 16 _, .cons 0 16 _ =>
        let mk := fun (e : List Ext) => some
          { version := v, serial := s, sigAlg := encode alg, issuer := i, notBefore := b,
            notAfter := a, subject := su, spki := encode spki, exts := e : TbsCert }
        match rest with
        | [] => mk []
        | [.cons 2 3 [e]] => (decodeExts e).bind mk
        | _ => none
      | _, _ => none
    | _, _, _, _, _, _ => none
  | _ => none

def decodeTbsCert (b : Bytes) : Option TbsCert := (decodeAll b).bind decodeTbsCertTree

/-- Certificate / CertificationRequest / CertificateList share the outer shape
    SEQUENCE { tbs, signatureAlgorithm, BIT STRING }: returns (tbs bytes, alg bytes, signature) -/
def splitSigned (b : Bytes) : Option (Bytes × Bytes × Bytes) :=
  match decodeAll b with
  | some (.cons 0 16 [tbs, alg, .prim 0 3 (u :: sig)]) =>
    if u.toNat == 0 then some (encode tbs, encode alg, sig) else none
  | _ => none

/-! ### RFC 2986 -/

structure CsrAttr where
  oid : List Nat
  values : Bytes        -- DER of the SET OF values
  deriving DecidableEq, Repr

structure CsrInfo where
  version : Nat
  subject : Name
  spki : Bytes
  attrs : List CsrAttr
  deriving DecidableEq, Repr

def decodeCsrAttr : Asn1 → Option CsrAttr
  | .cons 0 16 [o, vals] =>
    match asOid o, vals with
    | some oid, .cons 0 17 _ => some ⟨oid, encode vals⟩
    | _, _ => none
  | _ => none

def decodeCsrInfoTree : Asn1 → Option CsrInfo
  | .cons 0 16 [ver, sub, spki, .cons 2 0 attrs] =>
    match asNat ver, decodeName sub, spki, attrs.mapM decodeCsrAttr with
    | some v, some s, .cons 0 16 _, some a => some ⟨v, s, encode spki, a⟩
    | _, _, _, _ => none
  | _ => none

def decodeCsrInfo (b : Bytes) : Option CsrInfo := (decodeAll b).bind decodeCsrInfoTree

/-- the extensions of an extensionRequest attribute value (SET { SEQUENCE OF Extension }) -/
def decodeExtensionRequest (values : Bytes) : Option (List Ext) :=
  match decodeAll values with
  | some (.cons 0 17 [.cons 0 16 exts]) => exts.mapM decodeExt
  | _ => none

/-- the extensions of every value of an extensionRequest attribute (SET OF SEQUENCE OF Extension) -/
def decodeExtensionRequestAll (values : Bytes) : Option (List Ext) :=
  match decodeAll values with
  | some (.cons 0 17 vals) =>
    (vals.mapM (fun (v : Asn1) => match v with
      | .cons 0 16 exts => exts.mapM decodeExt
      | _ => none)).map List.flatten
  | _ => none

/-! ### extensions at the level of the Extension SEQUENCE itself: identifier, criticality and the
    octets of extnValue, without interpreting the value (used for "embedded byte for byte") -/

def rawExt : Asn1 → Option (List Nat × Bool × Bytes)
  | .cons 0 16 [o, .prim 0 4 v] => (asOid o).map (fun oid => (oid, false, v))
  | .cons 0 16 [o, .prim 0 1 [b], .prim 0 4 v] => (asOid o).map (fun oid => (oid, b != 0, v))
  | _ => none

/-- the extensions of a TBSCertificate, uninterpreted -/
def rawCertExts (tbs : Bytes) : Option (List (List Nat × Bool × Bytes)) :=
  match decodeAll tbs with
  | some (.cons 0 16 kids) =>
    match kids.getLast? with
    | some (.cons 2 3 [.cons 0 16 exts]) => exts.mapM rawExt
    | _ => some []
  | _ => none

/-- the extensions of every value of an extensionRequest attribute, uninterpreted -/
def rawRequestExts (values : Bytes) : Option (List (List Nat × Bool × Bytes)) :=
  match decodeAll values with
  | some (.cons 0 17 vals) =>
    (vals.mapM (fun (v : Asn1) => match v with
      | .cons 0 16 exts => exts.mapM rawExt
      | _ => none)).map List.flatten
  | _ => none

/-! ### RFC 5280 §5 -/

structure RevokedEntry where
  serial : Nat
  date : TimeForm × Int
  exts : List Ext
  deriving DecidableEq, Repr

structure TbsCrl where
  version : Option Nat
  sigAlg : Bytes
  issuer : Name
  thisUpdate : TimeForm × Int
  nextUpdate : Option (TimeForm × Int)
  revoked : Option (List RevokedEntry)       -- `none`: field absent
  exts : List Ext
  deriving DecidableEq, Repr

def decodeRevoked : Asn1 → Option RevokedEntry
  | .cons 0 16 [s, d] =>
    match asNat s, asTime d with
    | some n, some t => some ⟨n, t, []⟩
    | _, _ => none
  | .cons 0 16 [s, d, e] =>
    match asNat s, asTime d, decodeExts e with
    | some n, some t, some x => some ⟨n, t, x⟩
    | _, _, _ => none
  | _ => none

def decodeTbsCrlTree : Asn1 → Option TbsCrl
  | .cons 0 16 (ver :: alg :: iss :: this :: next :: rest) =>
    match asNat ver, alg, decodeName iss, asTime this, asTime next with
    | some v, .cons 0 16 _, some i, some t, some n =>
      let mk := fun (r : Option (List RevokedEntry)) (e : List Ext) => some
        { version := some v, sigAlg := encode alg, issuer := i, thisUpdate := t,
          nextUpdate := some n, revoked := r, exts := e : TbsCrl }
      match rest with
      | [] => mk none []
      | [.cons 2 0 [e]] => (decodeExts e).bind (mk none)
      | [.cons 0 16 rs] =>
        if rs.isEmpty then none else (rs.mapM decodeRevoked).bind (fun r => mk (some r) [])
      | [.cons 0 16 rs, .cons 2 0 [e]] =>
        if rs.isEmpty then none else
        match rs.mapM decodeRevoked, decodeExts e with
        | some r, some x => mk (some r) x
        | _, _ => none
      | _ => none
    | _, _, _, _, _ => none
  | _ => none

def decodeTbsCrl (b : Bytes) : Option TbsCrl := (decodeAll b).bind decodeTbsCrlTree

/-! ### schema-aware DER rules (beyond the per-type ones of `canonical`) -/

/-- a named-bit list must not end in a zero bit (X.690 §11.2.2) -/
def namedBitsMinimal (c : Bytes) : Bool :=
  match c with
  | [] => false
  | [u] => u.toNat == 0
  | u :: bs =>
    match bs.getLast? with
    | some last => u.toNat < 8 && (last.toNat >>> u.toNat) % 2 == 1
    | none => false

/-- `critical BOOLEAN DEFAULT FALSE`: absent, or TRUE written as FF -/
def critOk : Asn1 → Bool
  | .prim 0 1 [b] => b.toNat == 255
  | _ => false

/-- the extension identifiers whose values this reader opens -/
def knownExtOid (oid : List Nat) : Bool :=
  oid.take 3 == [2, 5, 29] && oid.length == 4 &&
    [35, 14, 15, 37, 19, 17, 30, 31, 20, 28, 21, 24].contains (oid.getD 3 0)

/-- KeyUsage is a named-bit list -/
def kuValueOk : Asn1 → Bool
  | .prim 0 3 c => namedBitsMinimal c
  | _ => false

/-- BasicConstraints.cA DEFAULT FALSE: if present it is TRUE -/
def bcValueOk : Asn1 → Bool
  | .cons 0 16 (.prim 0 1 [b] :: _) => b.toNat == 255
  | _ => true

/-- IssuingDistributionPoint booleans DEFAULT FALSE -/
def idpFlagOk : Asn1 → Bool
  | .prim 2 1 [b] => b.toNat == 255
  | .prim 2 2 [b] => b.toNat == 255
  | _ => true

def idpValueOk : Asn1 → Bool
  | .cons 0 16 kids => kids.all idpFlagOk
  | _ => false

/-- invalidityDate is a GeneralizedTime -/
def invDateOk : Asn1 → Bool
  | .prim 0 24 _ => true
  | _ => false

/-- the value of an extension this reader knows is itself canonical DER, with the DEFAULT and
    named-bit rules of its type (X.690 §11.5, §11.2.2) -/
def extValueCanonical (oid : List Nat) (v : Bytes) : Bool :=
  if !knownExtOid oid then true else
  match decodeAll v with
  | none => false
  | some t =>
    canonical t &&
    (if oid == [2, 5, 29, 15] then kuValueOk t
     else if oid == [2, 5, 29, 19] then bcValueOk t
     else if oid == [2, 5, 29, 28] then idpValueOk t
     else if oid == [2, 5, 29, 24] then invDateOk t
     else true)

def extOidValueOk (o : Asn1) (v : Bytes) : Bool :=
  match asOid o with
  | none => false
  | some oid => extValueCanonical oid v

/-- Extension: `critical` absent or TRUE, value canonical -/
def extCanonical : Asn1 → Bool
  | .cons 0 16 [o, .prim 0 4 v] => extOidValueOk o v
  | .cons 0 16 [o, c, .prim 0 4 v] => critOk c && extOidValueOk o v
  | _ => false

def extsCanonical : Asn1 → Bool
  | .cons 0 16 kids => kids.all extCanonical
  | _ => false

/-- RFC 5280 §4.1.2.5, §5.1.2.4-6: validity, thisUpdate, nextUpdate and revocationDate MUST be
    UTCTime for dates in 1950..2049; GeneralizedTime is for the years UTCTime cannot express -/
def timeChoiceOk : Asn1 → Bool
  | .prim 0 24 c =>
    match digitsVal (c.take 4) with
    | some y => !(1950 ≤ y && y ≤ 2049)
    | none => false
  | _ => true

/-- a field of TBSCertificate: the extensions block, a two-element SEQUENCE (validity), or the
    version, whose DEFAULT value v1 must not be encoded (X.690 §11.5) -/
def certFieldOk : Asn1 → Bool
  | .cons 2 3 [e] => extsCanonical e
  | .cons 0 16 [a, b] => timeChoiceOk a && timeChoiceOk b
  | .cons 2 0 [.prim 0 2 c] => c != [0]        -- version [0] EXPLICIT INTEGER DEFAULT v1(0)
  | _ => true

/-- canonical DER of a whole certificate: strict TLV, leaf rules everywhere, extension values
    opened and checked, validity in the RFC 5280 choice of time type -/
def certCanonical (der : Bytes) : Bool :=
  match decodeAll der with
  | some t =>
    canonical t &&
    (match t with
     | .cons 0 16 [.cons 0 16 fields, _, _] => fields.all certFieldOk
     | _ => false)
  | none => false

def crlEntryOk : Asn1 → Bool
  | .cons 0 16 [_, d, e] => timeChoiceOk d && extsCanonical e
  | .cons 0 16 [_, d] => timeChoiceOk d
  | _ => true

def crlFieldOk : Asn1 → Bool
  | .cons 2 0 [e] => extsCanonical e
  | .cons 0 16 entries => entries.all crlEntryOk
  | .prim 0 24 c => timeChoiceOk (.prim 0 24 c)
  | _ => true

def crlCanonical (der : Bytes) : Bool :=
  match decodeAll der with
  | some t =>
    canonical t &&
    (match t with
     | .cons 0 16 [.cons 0 16 fields, _, _] => fields.all crlFieldOk
     | _ => false)
  | none => false

def csrAttrOk : Asn1 → Bool
  | .cons 0 16 [o, .cons 0 17 [.cons 0 16 exts]] =>
    if asOid o == some [1, 2, 840, 113549, 1, 9, 14] then exts.all extCanonical else true
  | _ => true

def csrCanonical (der : Bytes) : Bool :=
  match decodeAll der with
  | some t =>
    canonical t &&
    (match t with
     | .cons 0 16 [.cons 0 16 [_, _, _, .cons 2 0 attrs], _, _] =>
       sortedBy bytesLe (attrs.map encode) && attrs.all csrAttrOk
     | _ => false)
  | none => false

def spkiCanonical (der : Bytes) : Bool :=
  match decodeAll der with
  | some t => canonical t
  | none => false

end Rcgen.Spec
