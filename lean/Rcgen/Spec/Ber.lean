import Rcgen.Base.Der
/-
  A reader that tolerates what x509-parser tolerates inside a request: any definite length form
  (more length octets than needed, leading zero octets, the long form for a short length).
  Where the strict decoder of Base/Der has no answer, this one says what is *there* — every
  element of a value, not only the first — so that "carried over whole, or refused" (C06's last
  clause) can still be decided.  `Proofs/Ber.lean`: on DER it is the strict decoder.
-/
namespace Rcgen.Spec
open Rcgen

/-- definite length, any form: short, or 0x80|k followed by k octets read big-endian -/
def decLenBer : Bytes → Option (Nat × Bytes)
  | [] => none
  | b :: rest =>
    if b.toNat < 128 then some (b.toNat, rest)
    else
      let k := b.toNat - 128
      if k = 0 ∨ k = 127 then none
      else if rest.length < k then none
      else some (ofBe (rest.take k), rest.drop k)

mutual
/-- the TLV decoder of Base/Der with `decLenBer` for the lengths -/
def decodeBer : Nat → Bytes → Option (Asn1 × Bytes)
  | 0, _ => none
  | _, [] => none
  | fuel + 1, b :: rest =>
    let v := b.toNat
    let cls := v / 64
    let c := (v / 32) % 2 == 1
    let num := v % 32
    if num = 31 then none else
    match decLenBer rest with
    | none => none
    | some (n, rest') =>
      if rest'.length < n then none else
      let content := rest'.take n
      let after := rest'.drop n
      if c then
        match decodeListBer fuel content with
        | none => none
        | some ch => some (.cons cls num ch, after)
      else some (.prim cls num content, after)
def decodeListBer : Nat → Bytes → Option (List Asn1)
  | 0, _ => none
  | _, [] => some []
  | fuel + 1, bs@(_ :: _) =>
    match decodeBer fuel bs with
    | none => none
    | some (t, rest) =>
      match decodeListBer fuel rest with
      | none => none
      | some ts => some (t :: ts)
end

def decodeAllBer (b : Bytes) : Option Asn1 :=
  match decodeBer (2 * b.length + 2) b with
  | some (t, []) => some t
  | _ => none

/-- every element of a byte string (an extnValue may hold more than one) -/
def elementsBer (b : Bytes) : Option (List Asn1) := decodeListBer (2 * b.length + 2) b

/-! ### what a request asks for and what a certificate carries, read tolerantly -/

/-- (content octets of the extension identifier, extnValue content) of each Extension -/
def berExtensions : Asn1 → Option (List (Bytes × Bytes))
  | .cons 0 16 kids => kids.mapM (fun (e : Asn1) =>
      match e with
      | .cons 0 16 [.prim 0 6 o, .prim 0 4 v] => some (o, v)
      | .cons 0 16 [.prim 0 6 o, _, .prim 0 4 v] => some (o, v)
      | _ => none)
  | _ => none

def extReqOidContent : Bytes := [0x2a, 0x86, 0x48, 0x86, 0xf7, 0x0d, 0x01, 0x09, 0x0e]

/-- every extension of every value of every extensionRequest attribute of a request -/
def berRequested (csr : Bytes) : Option (List (Bytes × Bytes)) :=
  match decodeAllBer csr with
  | some (.cons 0 16 (.cons 0 16 [_, _, _, .cons 2 0 attrs] :: _)) =>
    (attrs.mapM (fun (a : Asn1) =>
      match a with
      | .cons 0 16 [.prim 0 6 o, .cons 0 17 vals] =>
        if o == extReqOidContent then (vals.mapM berExtensions).map List.flatten else some []
      | _ => none)).map List.flatten
  | _ => none

/-- the extensions of a certificate (none when it has no `[3]` block) -/
def berIssued (cert : Bytes) : Option (List (Bytes × Bytes)) :=
  match decodeAllBer cert with
  | some (.cons 0 16 (.cons 0 16 tbs :: _)) =>
    match tbs.find? (fun (t : Asn1) => match t with | .cons 2 3 _ => true | _ => false) with
    | some (.cons 2 3 [exts]) => berExtensions exts
    | some _ => none
    | none => some []
  | _ => none

/-- the content octets of an OBJECT IDENTIFIER element -/
def oidContentOf : Asn1 → Option Bytes
  | .prim 0 6 c => some c
  | _ => none

/-- the purposes named by extended-key-usage values, each of which has to be one SEQUENCE of
    object identifiers and nothing else; as a duplicate-free sorted list of identifier contents -/
def berPurposes (vals : List Bytes) : Option (List Bytes) :=
  (vals.mapM (fun (v : Bytes) =>
    match elementsBer v with
    | some [.cons 0 16 oids] => oids.mapM oidContentOf
    | _ => none)).map (fun (ls : List (List Bytes)) => ls.flatten.eraseDups)

def valuesOf (l : List (Bytes × Bytes)) (o : Bytes) : List Bytes :=
  (l.filter (fun e => e.1 == o)).map (·.2)

def sameMembers (a b : List Bytes) : Bool := a.all (b.contains ·) && b.all (a.contains ·)

/-- C06's issuance clauses where the strict decoder cannot read the request: key usage and
    alternative names carried byte for byte (rcgen's own rule for them), the extended key usages
    as the set of purposes of values that are one SEQUENCE of identifiers, nothing else asked -/
def c06IssueClausesBer (csr cert : Bytes) : Option (List String) :=
  match berRequested csr, berIssued cert with
  | some rq, some iss =>
    let ku : Bytes := [0x55, 0x1d, 0x0f]
    let san : Bytes := [0x55, 0x1d, 0x11]
    let eku : Bytes := [0x55, 0x1d, 0x25]
    let c (n : String) (ok : Bool) : List String := if ok then [] else [n]
    some (
      c "C06:issued-key-usage-equals-requested" (valuesOf rq ku == valuesOf iss ku) ++
      c "C06:issued-san-equals-requested" (valuesOf rq san == valuesOf iss san) ++
      (match berPurposes (valuesOf rq eku), berPurposes (valuesOf iss eku) with
       | some r, some i => c "C06:issued-eku-equals-requested" (sameMembers r i)
       | none, _ => ["C06:unsupported-request-accepted"]
       | _, none => ["C06:issued-eku-equals-requested"]) ++
      c "C06:unsupported-request-accepted" (rq.all (fun e => e.1 == ku || e.1 == san || e.1 == eku)))
  | _, _ => none

end Rcgen.Spec
