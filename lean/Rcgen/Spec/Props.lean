import Rcgen.Spec.X509
import Rcgen.Model.Types
import Rcgen.Model.Time
import Rcgen.Model.Name
/-
  The content a caller *requested*, computed from the parameter values alone (RFC constants
  transcribed here as literals), and for each property an executable predicate returning the
  list of failed clauses.  The same definitions are (a) what the theorems are stated about and
  (b) what the driver runs on bytes produced by the real crate.
-/
namespace Rcgen.Spec
open Rcgen.Model

/-! ### RFC constants (byte literals) -/

/-- signature AlgorithmIdentifier: RFC 4055 §5 (NULL parameters), RFC 5758 §3.2 and RFC 8410 §3
    (parameters absent) -/
def rfcSigAlgId : SigAlg → Bytes
  | .rsaSha256 => [0x30,0x0d,0x06,0x09,0x2a,0x86,0x48,0x86,0xf7,0x0d,0x01,0x01,0x0b,0x05,0x00]
  | .rsaSha384 => [0x30,0x0d,0x06,0x09,0x2a,0x86,0x48,0x86,0xf7,0x0d,0x01,0x01,0x0c,0x05,0x00]
  | .rsaSha512 => [0x30,0x0d,0x06,0x09,0x2a,0x86,0x48,0x86,0xf7,0x0d,0x01,0x01,0x0d,0x05,0x00]
  | .ecdsaP256 => [0x30,0x0a,0x06,0x08,0x2a,0x86,0x48,0xce,0x3d,0x04,0x03,0x02]
  | .ecdsaP384 => [0x30,0x0a,0x06,0x08,0x2a,0x86,0x48,0xce,0x3d,0x04,0x03,0x03]
  | .ecdsaP521 => [0x30,0x0a,0x06,0x08,0x2a,0x86,0x48,0xce,0x3d,0x04,0x03,0x04]
  | .ed25519 => [0x30,0x05,0x06,0x03,0x2b,0x65,0x70]

/-- SubjectPublicKeyInfo.algorithm: RFC 3279/4055 rsaEncryption with NULL, RFC 5480 id-ecPublicKey
    with the named curve, RFC 8410 id-Ed25519 -/
def rfcSpkiAlgId : SigAlg → Bytes
  | .rsaSha256 | .rsaSha384 | .rsaSha512 =>
    [0x30,0x0d,0x06,0x09,0x2a,0x86,0x48,0x86,0xf7,0x0d,0x01,0x01,0x01,0x05,0x00]
  | .ecdsaP256 =>
    [0x30,0x13,0x06,0x07,0x2a,0x86,0x48,0xce,0x3d,0x02,0x01,0x06,0x08,0x2a,0x86,0x48,0xce,0x3d,0x03,0x01,0x07]
  | .ecdsaP384 =>
    [0x30,0x10,0x06,0x07,0x2a,0x86,0x48,0xce,0x3d,0x02,0x01,0x06,0x05,0x2b,0x81,0x04,0x00,0x22]
  | .ecdsaP521 =>
    [0x30,0x10,0x06,0x07,0x2a,0x86,0x48,0xce,0x3d,0x02,0x01,0x06,0x05,0x2b,0x81,0x04,0x00,0x23]
  | .ed25519 => [0x30,0x05,0x06,0x03,0x2b,0x65,0x70]

/-- SubjectPublicKeyInfo ::= SEQUENCE { algorithm, subjectPublicKey BIT STRING } -/
def rfcSpki (k : PubKey) : Bytes :=
  encode (.cons 0 16 [.raw (rfcSpkiAlgId k.alg), .prim 0 3 (0 :: k.raw)])

/-- RFC 5280 Appendix A attribute types -/
def rfcAttrOid : DnType → List Nat
  | .country => [2, 5, 4, 6] | .locality => [2, 5, 4, 7] | .state => [2, 5, 4, 8]
  | .org => [2, 5, 4, 10] | .orgUnit => [2, 5, 4, 11] | .commonName => [2, 5, 4, 3]
  | .custom o => o

def rfcEkuOid : Eku → List Nat
  | .any => [2, 5, 29, 37, 0]
  | .serverAuth => [1, 3, 6, 1, 5, 5, 7, 3, 1] | .clientAuth => [1, 3, 6, 1, 5, 5, 7, 3, 2]
  | .codeSigning => [1, 3, 6, 1, 5, 5, 7, 3, 3] | .emailProtection => [1, 3, 6, 1, 5, 5, 7, 3, 4]
  | .timeStamping => [1, 3, 6, 1, 5, 5, 7, 3, 8] | .ocspSigning => [1, 3, 6, 1, 5, 5, 7, 3, 9]
  | .other o => o

def oidAki : List Nat := [2, 5, 29, 35]
def oidSki : List Nat := [2, 5, 29, 14]
def oidKeyUsage : List Nat := [2, 5, 29, 15]
def oidSan : List Nat := [2, 5, 29, 17]
def oidBasicConstraints : List Nat := [2, 5, 29, 19]
def oidNameConstraints : List Nat := [2, 5, 29, 30]
def oidCrlDps : List Nat := [2, 5, 29, 31]
def oidEku : List Nat := [2, 5, 29, 37]
def oidCrlNumber : List Nat := [2, 5, 29, 20]
def oidIdp : List Nat := [2, 5, 29, 28]
def oidReason : List Nat := [2, 5, 29, 21]
def oidInvalidityDate : List Nat := [2, 5, 29, 24]
def oidExtensionRequest : List Nat := [1, 2, 840, 113549, 1, 9, 14]

/-! ### requested content -/

def reqAttr (e : DnType × DnValue) : AttrTV :=
  match e.2 with
  | .bmp b => ⟨rfcAttrOid e.1, 30, b⟩
  | .ia5 b => ⟨rfcAttrOid e.1, 22, b⟩
  | .printable b => ⟨rfcAttrOid e.1, 19, b⟩
  | .teletex b => ⟨rfcAttrOid e.1, 20, b⟩
  | .universal b => ⟨rfcAttrOid e.1, 28, b⟩
  | .utf8 b => ⟨rfcAttrOid e.1, 12, b⟩

/-- the enumeration of a name (types present, insertion order, latest values — C20), one
    single-valued RDN per attribute -/
def reqName (enumeration : List (DnType × DnValue)) : Name :=
  enumeration.map (fun e => [reqAttr e])

def reqSan : SanType → GName
  | .rfc822 b => .rfc822 b
  | .dns b => .dns b
  | .uri b => .uri b
  | .ip o => .ip o
  | .otherName oid v => .other oid 12 v

def reqSubtree (enumOf : DistinguishedName → List (DnType × DnValue)) : GeneralSubtree → GName
  | .rfc822 b => .rfc822 b
  | .dns b => .dns b
  | .directoryName dn => .dirName (reqName (enumOf dn))
  | .ip (.v4 a m) => .ip (a ++ m)
  | .ip (.v6 a m) => .ip (a ++ m)

/-- the named bits requested, as indices, without duplicates, ascending -/
def reqKeyUsageBits (kus : List KeyUsage) : List Nat :=
  (List.range 9).filter (fun i => kus.any (fun k => k.index == i))

/-- key identifier derivation (RFC 7093 truncated digests or the given bytes) -/
def reqKeyId (H : Hashes) (m : KeyIdMethod) (spki : Bytes) : Bytes :=
  match m with
  | .sha256 => (H.sha256 spki).take 20
  | .sha384 => (H.sha384 spki).take 20
  | .sha512 => (H.sha512 spki).take 20
  | .preSpecified b => b

structure CertInputs where
  H : Hashes
  p : CertParams
  subject : PubKey
  issuer : Issuer

abbrev enumOf (dn : DistinguishedName) : List (DnType × DnValue) := dn.iter

/-- the extensions a parameter set asks for, SKI excepted (it has its own rule).
    Criticality is recorded only where the caller chooses it (custom extensions);
    C05 states the profile's criticality rules. -/
def reqExts (i : CertInputs) : List Ext :=
  (if i.p.useAki then
    [⟨oidAki, false, .aki (some (reqKeyId i.H i.issuer.keyIdMethod (rfcSpki i.issuer.key)))⟩] else []) ++
  (if i.p.sans.isEmpty then [] else [⟨oidSan, false, .san (i.p.sans.map reqSan)⟩]) ++
  (if i.p.keyUsages.isEmpty then [] else [⟨oidKeyUsage, false, .keyUsage (reqKeyUsageBits i.p.keyUsages)⟩]) ++
  (if i.p.ekus.isEmpty then [] else [⟨oidEku, false, .eku (i.p.ekus.map rfcEkuOid)⟩]) ++
  (match i.p.nameConstraints with
   | some nc =>
     if nc.permitted.isEmpty && nc.excluded.isEmpty then [] else
       [⟨oidNameConstraints, false,
         .nameConstraints (nc.permitted.map (reqSubtree enumOf)) (nc.excluded.map (reqSubtree enumOf))⟩]
   | none => []) ++
  (if i.p.crlDps.isEmpty then [] else
    [⟨oidCrlDps, false, .crlDps (i.p.crlDps.map (fun dp => dp.uris.map GName.uri))⟩]) ++
  (match i.p.isCa with
   | .ca pl => [⟨oidBasicConstraints, false, .basicConstraints true pl⟩]
   | .explicitNoCa => [⟨oidBasicConstraints, false, .basicConstraints false none⟩]
   | .noCa => []) ++
  i.p.customExts.map (fun e => ⟨e.oid, e.critical, .opaque e.content⟩)

/-- drop the criticality of the extensions whose criticality the caller does not choose -/
def normExt (customOids : List (List Nat)) (e : Ext) : Ext :=
  if customOids.contains e.oid then e else { e with critical := false }

def isPermOf [DecidableEq α] (a b : List α) : Bool :=
  a.length == b.length && a.all (fun x => a.count x == b.count x)

def reqSerial (i : CertInputs) : Nat :=
  match i.p.serial with
  | some s => ofBe s
  | none =>
    match (i.H.sha256 i.subject.raw).take 20 with
    | [] => 0
    | b :: r => ofBe (UInt8.ofNat (b.toNat % 128) :: r)

def clause (name : String) (ok : Bool) : List String := if ok then [] else [name]

/-- C02: decoding the to-be-signed certificate yields exactly the requested content -/
def c02Clauses (i : CertInputs) (tbs : Bytes) : List String :=
  match decodeTbsCert tbs with
  | none => ["C02:decodes"]
  | some c =>
    let custom := i.p.customExts.map (·.oid)
    let others := (c.exts.filter (fun e => e.oid != oidSki)).map (normExt custom)
    let skis := c.exts.filter (fun e => e.oid == oidSki)
    let wantSki : ExtValue := .ski (reqKeyId i.H i.p.keyIdMethod (rfcSpki i.subject))
    clause "C02:serial" (c.serial == reqSerial i) ++
    clause "C02:issuer-name" (c.issuer == reqName (enumOf i.issuer.dn)) ++
    clause "C02:subject-name" (c.subject == reqName (enumOf i.p.dn)) ++
    clause "C02:not-before-instant" (c.notBefore.2 == i.p.notBefore.epochSeconds) ++
    clause "C02:not-after-instant" (c.notAfter.2 == i.p.notAfter.epochSeconds) ++
    clause "C02:subject-public-key" (c.spki == rfcSpki i.subject) ++
    clause "C02:extensions-exactly-requested" (isPermOf others (reqExts i)) ++
    clause "C02:ski-present-in-ca" (match i.p.isCa with | .ca _ => !skis.isEmpty | _ => true) ++
    clause "C02:ski-value" (skis.all (fun e => e.value == wantSki) && skis.length ≤ 1)

/-- basicConstraints asserting cA MUST be critical (RFC 5280 §4.2.1.9) -/
def bcCriticalOk (e : Ext) : Bool :=
  match e.value with
  | .basicConstraints true _ => e.critical
  | _ => true

/-- C05 (certificate part): structural MUSTs of the profile -/
def c05CertClauses (i : CertInputs) (tbs : Bytes) : List String :=
  match decodeTbsCert tbs with
  | none => ["C05:decodes"]
  | some c =>
    let find := fun (o : List Nat) => c.exts.filter (fun e => e.oid == o)
    let rcgenOids := [oidAki, oidSki, oidKeyUsage, oidSan, oidBasicConstraints,
      oidNameConstraints, oidCrlDps, oidEku]
    clause "C05:version-v3" (c.version == 2) ++
    clause "C05:auto-serial-positive-20-octets"
      (i.p.serial.isSome || (0 < c.serial && c.serial < 2 ^ 159)) ++
    clause "C05:san-critical-iff-subject-empty"
      ((find oidSan).all (fun e => e.critical == c.subject.isEmpty)) ++
    clause "C05:basic-constraints-critical-in-ca" ((find oidBasicConstraints).all bcCriticalOk) ++
    clause "C05:name-constraints-critical" ((find oidNameConstraints).all (·.critical)) ++
    clause "C05:key-identifiers-noncritical"
      ((find oidAki ++ find oidSki).all (fun e => !e.critical)) ++
    clause "C05:own-extension-oids-unique"
      (rcgenOids.all (fun o => i.p.customExts.any (fun e => e.oid == o) || (find o).length ≤ 1))

/-- C09 on one time field: same instant, RFC 5280 form by UTC year -/
def timeFieldOk (dt : DateTime) (got : TimeForm × Int) : Bool :=
  let t := dt.epochSeconds
  let y := (civilFromDays (t / 86400)).1
  got.2 == t && got.1 == (if 1950 ≤ y ∧ y ≤ 2049 then TimeForm.utc else TimeForm.generalized)

def c09CertClauses (i : CertInputs) (tbs : Bytes) : List String :=
  match decodeTbsCert tbs with
  | none => ["C09:decodes"]
  | some c =>
    clause "C09:not-before" (timeFieldOk i.p.notBefore c.notBefore) ++
    clause "C09:not-after" (timeFieldOk i.p.notAfter c.notAfter)

/-- C01 (structure part): inner signature algorithm = outer = RFC identifier of the signing key -/
def c01Clauses (alg : SigAlg) (der : Bytes) (innerAlg : Bytes → Option Bytes) : List String :=
  match splitSigned der with
  | none => ["C01:outer-structure"]
  | some (tbs, outerAlg, _) =>
    clause "C01:outer-algorithm-is-rfc-identifier" (outerAlg == rfcSigAlgId alg) ++
    (match innerAlg tbs with
     | some a => clause "C01:inner-algorithm-equals-outer" (a == outerAlg)
     | none => [])

/-! ### CSR -/

structure CsrInputs where
  p : CertParams
  subject : PubKey
  attrs : List Attribute

def reqCsrExts (i : CsrInputs) : List Ext :=
  (if i.p.keyUsages.isEmpty then [] else [⟨oidKeyUsage, false, .keyUsage (reqKeyUsageBits i.p.keyUsages)⟩]) ++
  (if i.p.sans.isEmpty then [] else [⟨oidSan, false, .san (i.p.sans.map reqSan)⟩]) ++
  (if i.p.ekus.isEmpty then [] else [⟨oidEku, false, .eku (i.p.ekus.map rfcEkuOid)⟩]) ++
  i.p.customExts.map (fun e => ⟨e.oid, e.critical, .opaque e.content⟩)

def c07Clauses (i : CsrInputs) (info : Bytes) : List String :=
  match decodeCsrInfo info with
  | none => ["C07:decodes"]
  | some c =>
    let custom := i.p.customExts.map (·.oid)
    let callerAttrs : List CsrAttr := i.attrs.map (fun a => ⟨a.oid, a.values⟩)
    let wantsRequest := !(reqCsrExts i).isEmpty
    -- the extension request is the attribute not accounted for by the caller's list
    let rest := callerAttrs.foldl (fun acc a => acc.erase a) c.attrs
    clause "C07:version-0" (c.version == 0) ++
    clause "C07:subject-name" (c.subject == reqName (enumOf i.p.dn)) ++
    clause "C07:subject-public-key" (c.spki == rfcSpki i.subject) ++
    clause "C07:caller-attributes-verbatim" (callerAttrs.all (fun a => c.attrs.count a ≥ callerAttrs.count a)) ++
    (if wantsRequest then
      match rest with
      | [r] =>
        clause "C07:extension-request-oid" (r.oid == oidExtensionRequest) ++
        (match decodeExtensionRequest r.values with
         | some exts => clause "C07:extension-request-exactly-requested"
             (isPermOf (exts.map (normExt custom)) (reqCsrExts i))
         | none => ["C07:extension-request-decodes"])
      | _ => ["C07:exactly-one-extension-request"]
     else clause "C07:no-unrequested-attribute" rest.isEmpty)

/-- the seven purposes rcgen can carry over from a request -/
def standardEkuOids : List (List Nat) :=
  [[2, 5, 29, 37, 0], [1, 3, 6, 1, 5, 5, 7, 3, 1], [1, 3, 6, 1, 5, 5, 7, 3, 2],
   [1, 3, 6, 1, 5, 5, 7, 3, 3], [1, 3, 6, 1, 5, 5, 7, 3, 4], [1, 3, 6, 1, 5, 5, 7, 3, 8],
   [1, 3, 6, 1, 5, 5, 7, 3, 9]]

def sameSet [DecidableEq α] (a b : List α) : Bool := a.all (b.contains ·) && b.all (a.contains ·)

/-- the values of the extensions with identifier `o`, in order -/
def valOf (l : List Ext) (o : List Nat) : List ExtValue := (l.filter (fun e => e.oid == o)).map (·.value)

/-- the purposes named by extended-key-usage values -/
def ekuOids (l : List ExtValue) : List (List Nat) :=
  l.flatMap (fun v => match v with
    | .eku oids => oids
    | _ => [])

/-- C06, issuance part, read off the two artefacts alone (no parameters, no model): the
    certificate issued from an accepted request carries the request's subject, SANs, key usages
    and extended key usages, and a request asking for anything else must not have been
    accepted.  `csr` is the whole request, `certTbs` the issued to-be-signed certificate. -/
def c06IssueClauses (csr certTbs : Bytes) : List String :=
  match splitSigned csr with
  | none => ["C06:request-outer-structure"]
  | some (info, _, _) =>
    match decodeCsrInfo info, decodeTbsCert certTbs with
    | some r, some c =>
      -- everything the request asks for: every value of every extensionRequest attribute
      let reqExts : Option (List Ext) :=
        ((r.attrs.filter (fun a => a.oid == oidExtensionRequest)).mapM
          (fun a => decodeExtensionRequestAll a.values)).map List.flatten
      (match reqExts with
       | none => ["C06:extension-request-decodes"]
       | some rx =>
         let val := valOf
         let ekuOf := fun (l : List Ext) => ekuOids (valOf l oidEku)
         clause "C06:issued-subject-equals-requested" (c.subject == r.subject) ++
         clause "C06:issued-san-equals-requested" (val c.exts oidSan == val rx oidSan) ++
         clause "C06:issued-key-usage-equals-requested" (val c.exts oidKeyUsage == val rx oidKeyUsage) ++
         clause "C06:issued-eku-equals-requested" (sameSet (ekuOf c.exts) (ekuOf rx)) ++
         clause "C06:unsupported-request-accepted"
           (rx.all (fun e => e.oid == oidSan || e.oid == oidKeyUsage || e.oid == oidEku) &&
            (ekuOf rx).all (standardEkuOids.contains ·)))
    | none, _ => ["C06:request-decodes"]
    | _, none => ["C06:issued-certificate-decodes"]

/-- the key identifier a `Certificate` value reports against the one an RFC 5280 reader finds in
    its to-be-signed bytes: wherever a subjectKeyIdentifier is present, it is that value -/
def c02ObjectClauses (tbs : Bytes) (reportedKeyId : Bytes) : List String :=
  match decodeTbsCert tbs with
  | none => ["C02:decodes"]
  | some c =>
    clause "C02:reported-key-identifier-equals-encoded"
      ((c.exts.filter (fun e => e.oid == oidSki)).all (fun e => e.value == .ski reportedKeyId))

/-! ### CRL -/

structure CrlInputs where
  H : Hashes
  p : CrlParams
  issuer : Issuer

def reqRevoked (r : RevokedCert) (e : RevokedEntry) : Bool :=
  e.serial == ofBe r.serial && e.date.2 == r.revocationTime.epochSeconds &&
  -- reason: absent and unspecified are equivalent
  (let reasons := e.exts.filter (fun x => x.oid == oidReason)
   match r.reason with
   | none | some .unspecified => reasons.all (fun x => x.value == .reason 0) && reasons.length ≤ 1
   | some x => reasons.map (·.value) == [.reason x.code]) &&
  (let inv := e.exts.filter (fun x => x.oid == oidInvalidityDate)
   match r.invalidityDate with
   | none => inv.isEmpty
   | some d => inv.map (·.value) == [.invalidityDate .generalized d.epochSeconds]) &&
  e.exts.all (fun x => x.oid == oidReason || x.oid == oidInvalidityDate)

/-- is there a bijection between requested and decoded entries under `reqRevoked`?
    (entries are matched in order: a CRL lists entries in the order given) -/
def revokedMatch : List RevokedCert → List RevokedEntry → Bool
  | [], [] => true
  | r :: rs, e :: es => reqRevoked r e && revokedMatch rs es
  | _, _ => false

/-- RFC 5280 §6.3.3 (j): a certificate is reported revoked by a CRL exactly when its serial
    number occurs in `revokedCertificates` (an absent field lists nothing) -/
def isRevoked (c : TbsCrl) (serial : Nat) : Bool :=
  (c.revoked.getD []).any (fun e => e.serial == serial)

/-- the revocation verdict agrees with the request in both directions: every listed serial is
    reported revoked, and every serial reported revoked was listed -/
def revokedIffListed (req : List RevokedCert) (c : TbsCrl) : Bool :=
  req.all (fun r => isRevoked c (ofBe r.serial)) &&
  (c.revoked.getD []).all (fun e => req.any (fun r => ofBe r.serial == e.serial))

def c08Clauses (i : CrlInputs) (tbs : Bytes) : List String :=
  match decodeTbsCrl tbs with
  | none => ["C08:decodes"]
  | some c =>
    let find := fun (o : List Nat) => c.exts.filter (fun e => e.oid == o)
    clause "C08:issuer-name" (c.issuer == reqName (enumOf i.issuer.dn)) ++
    clause "C08:this-update-instant" (c.thisUpdate.2 == i.p.thisUpdate.epochSeconds) ++
    clause "C08:next-update-instant" (c.nextUpdate.map (·.2) == some i.p.nextUpdate.epochSeconds) ++
    clause "C08:crl-number" ((find oidCrlNumber).map (·.value) == [.crlNumber (ofBe i.p.crlNumber)]) ++
    clause "C08:authority-key-identifier"
      ((find oidAki).map (·.value) ==
        [.aki (some (reqKeyId i.H i.p.keyIdMethod (rfcSpki i.issuer.key)))]) ++
    clause "C08:issuing-distribution-point"
      ((find oidIdp).map (·.value) ==
        (match i.p.idp with
         | none => []
         | some d => [.idp (d.uris.map GName.uri) (d.scope == some .userCertsOnly)
                        (d.scope == some .caCertsOnly)])) ++
    clause "C08:no-other-crl-extension"
      (c.exts.all (fun e => e.oid == oidCrlNumber || e.oid == oidAki || e.oid == oidIdp)) ++
    clause "C08:entries-exactly-listed" (revokedMatch i.p.revoked (c.revoked.getD [])) ++
    clause "C08:revoked-iff-listed" (revokedIffListed i.p.revoked c) ++
    clause "C08:encoded-next-update-later-than-this-update"
      (match c.nextUpdate with | some n => c.thisUpdate.2 < n.2 | none => false) ++
    clause "C08:issuer-key-usage-allows-crl-sign"
      (i.issuer.keyUsages.isEmpty || i.issuer.keyUsages.contains .crlSign)

def c05CrlClauses (i : CrlInputs) (tbs : Bytes) : List String :=
  match decodeTbsCrl tbs with
  | none => ["C05:crl-decodes"]
  | some c =>
    let find := fun (o : List Nat) => c.exts.filter (fun e => e.oid == o)
    clause "C05:crl-v2" (c.version == some 1) ++
    clause "C05:crl-next-update-present" c.nextUpdate.isSome ++
    clause "C05:crl-aki-present-noncritical"
      ((find oidAki).length == 1 && (find oidAki).all (fun e => !e.critical)) ++
    clause "C05:crl-number-present-noncritical"
      ((find oidCrlNumber).length == 1 && (find oidCrlNumber).all (fun e => !e.critical)) ++
    clause "C05:crl-idp-critical" ((find oidIdp).all (·.critical)) ++
    clause "C05:crl-no-empty-revoked-list"
      (match c.revoked with | none => i.p.revoked.isEmpty | some l => !l.isEmpty)

def c09CrlClauses (i : CrlInputs) (tbs : Bytes) : List String :=
  match decodeTbsCrl tbs with
  | none => ["C09:crl-decodes"]
  | some c =>
    clause "C09:this-update" (timeFieldOk i.p.thisUpdate c.thisUpdate) ++
    clause "C09:next-update" (match c.nextUpdate with
      | some n => timeFieldOk i.p.nextUpdate n | none => false) ++
    clause "C09:revocation-date"
      ((i.p.revoked.zip (c.revoked.getD [])).all (fun (r, e) => timeFieldOk r.revocationTime e.date))

def c05CsrClauses (info : Bytes) : List String :=
  match decodeCsrInfo info with
  | none => ["C05:csr-decodes"]
  | some c =>
    clause "C05:csr-version-0" (c.version == 0) ++
    clause "C05:csr-at-most-one-extension-request"
      ((c.attrs.filter (fun a => a.oid == oidExtensionRequest)).length ≤ 1)

end Rcgen.Spec
