/-
  Proleptic Gregorian calendar arithmetic shared by the model (UTC conversion) and the
  specification (decoding a printed time back to an instant).
-/
namespace Rcgen

/-- days since 1970-01-01 of a civil date (month 1..12) -/
def daysFromCivil (y : Int) (m d : Nat) : Int :=
  let y' : Int := if m ≤ 2 then y - 1 else y
  let era : Int := y' / 400
  let yoe : Int := y' - era * 400
  let mp : Int := if m > 2 then (m : Int) - 3 else (m : Int) + 9
  let doy : Int := (153 * mp + 2) / 5 + (d : Int) - 1
  let doe : Int := yoe * 365 + yoe / 4 - yoe / 100 + doy
  era * 146097 + doe - 719468

/-- inverse of `daysFromCivil` -/
def civilFromDays (z0 : Int) : Int × Nat × Nat :=
  let z : Int := z0 + 719468
  let era : Int := z / 146097
  let doe : Int := z - era * 146097
  let yoe : Int := (doe - doe / 1460 + doe / 36524 - doe / 146096) / 365
  let y : Int := yoe + era * 400
  let doy : Int := doe - (365 * yoe + yoe / 4 - yoe / 100)
  let mp : Int := (5 * doy + 2) / 153
  let d : Int := doy - (153 * mp + 2) / 5 + 1
  let m : Int := if mp < 10 then mp + 3 else mp - 9
  (if m ≤ 2 then y + 1 else y, m.toNat, d.toNat)

def isLeapYear (y : Int) : Bool := (y % 4 == 0 && y % 100 != 0) || y % 400 == 0

def daysInMonth (y : Int) (m : Nat) : Nat :=
  match m with
  | 1 | 3 | 5 | 7 | 8 | 10 | 12 => 31
  | 4 | 6 | 9 | 11 => 30
  | 2 => if isLeapYear y then 29 else 28
  | _ => 0

end Rcgen
