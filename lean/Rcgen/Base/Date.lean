/-
  Proleptic Gregorian calendar arithmetic shared by the model (UTC conversion) and the
  specification (decoding a printed time back to an instant).
-/
namespace Rcgen

/-- days since 1970-01-01 of a civil date (month 1..12) -/
def daysFromCivil (y : Int) (m d : Nat) : Int :=
  let y' : Int := if m ≤ 2 then y - 1 else y
  let era : Int := y' / 400
  let yoe : Int := y' - era * 400
  let mp : Int := if m > 2 then (m : Int) - 3 else (m : Int) + 9
  let doy : Int := (153 * mp + 2) / 5 + (d : Int) - 1
  let doe : Int := yoe * 365 + yoe / 4 - yoe / 100 + doy
  era * 146097 + doe - 719468

/-- day of a 400-year era (0..146096) to (year of era 0..399, day of year 0..365); years of
    the era start on 1 March.  Staged: century, 4-year cycle, year. -/
def yoeDoy (doe : Int) : Int × Int :=
  let c : Int := min (doe / 36524) 3
  let doc : Int := doe - c * 36524
  let q : Int := min (doc / 1461) 24
  let doq : Int := doc - q * 1461
  let yr : Int := min (doq / 365) 3
  (c * 100 + q * 4 + yr, doq - yr * 365)

/-- day of a March-based year to (month index from March 0..11, day of month 1..31) -/
def monthDay (doy : Int) : Int × Int :=
  let mp : Int := (5 * doy + 2) / 153
  (mp, doy - (153 * mp + 2) / 5 + 1)

/-- inverse of `daysFromCivil` (proved in Proofs/Date.lean) -/
def civilFromDays (z0 : Int) : Int × Nat × Nat :=
  let z : Int := z0 + 719468
  let era : Int := z / 146097
  let doe : Int := z - era * 146097
  let yd := yoeDoy doe
  let md := monthDay yd.2
  let y : Int := yd.1 + era * 400
  let m : Int := if md.1 < 10 then md.1 + 3 else md.1 - 9
  (if m ≤ 2 then y + 1 else y, m.toNat, md.2.toNat)

def isLeapYear (y : Int) : Bool := (y % 4 == 0 && y % 100 != 0) || y % 400 == 0

def daysInMonth (y : Int) (m : Nat) : Nat :=
  match m with
  | 1 | 3 | 5 | 7 | 8 | 10 | 12 => 31
  | 4 | 6 | 9 | 11 => 30
  | 2 => if isLeapYear y then 29 else 28
  | _ => 0

end Rcgen
