import Rcgen.Base.Bytes
/-
  DER layer: lengths, identifier octets, the ASN.1 tree the model writers produce,
  the generic encoder (laid out as yasna 0.5.2 lays bytes out) and a strict decoder.
  `decode_encode` (Proofs/DerRoundTrip.lean) is the generic round trip.
-/
namespace Rcgen

/-- yasna `write_length`: short form below 128, else 0x80|k and k minimal big-endian octets -/
def encLen (n : Nat) : Bytes :=
  if n < 128 then [UInt8.ofNat n]
  else let bs := beBytes n; UInt8.ofNat (128 + bs.length) :: bs

/-- strict DER length: definite, minimal -/
def decLen : Bytes → Option (Nat × Bytes)
  | [] => none
  | b :: rest =>
    if b.toNat < 128 then some (b.toNat, rest)
    else
      let k := b.toNat - 128
      if k = 0 ∨ k = 127 then none
      else if rest.length < k then none
      else
        let bs := rest.take k
        let n := ofBe bs
        if bs.head? = some 0 then none
        else if n < 128 then none
        else some (n, rest.drop k)

/-- ASN.1 value tree. `cls`: 0 universal, 1 application, 2 context, 3 private. `num` < 31
    (rcgen never writes a high tag number). `raw` is caller-supplied, already encoded DER. -/
inductive Asn1 where
  | prim (cls num : Nat) (content : Bytes)
  | cons (cls num : Nat) (children : List Asn1)
  | raw (b : Bytes)
  deriving Repr, Inhabited

def identByte (cls : Nat) (c : Bool) (num : Nat) : UInt8 :=
  UInt8.ofNat (cls * 64 + (if c then 32 else 0) + num)

mutual
def encode : Asn1 → Bytes
  | .prim cls num c => identByte cls false num :: (encLen c.length ++ c)
  | .cons cls num ch => identByte cls true num :: (encLen (encodeList ch).length ++ encodeList ch)
  | .raw b => b
def encodeList : List Asn1 → Bytes
  | [] => []
  | t :: ts => encode t ++ encodeList ts
end

mutual
/-- raw-free, tag numbers in range, lengths representable -/
def Asn1.WF : Asn1 → Prop
  | .prim cls num c => cls < 4 ∧ num < 31 ∧ c.length < 256 ^ 126
  | .cons cls num ch => cls < 4 ∧ num < 31 ∧ (encodeList ch).length < 256 ^ 126 ∧ WFList ch
  | .raw _ => False
def WFList : List Asn1 → Prop
  | [] => True
  | t :: ts => t.WF ∧ WFList ts
end

mutual
/-- strict DER TLV decoder (fuel = recursion depth budget; `decodeAll` supplies enough). -/
def decode : Nat → Bytes → Option (Asn1 × Bytes)
  | 0, _ => none
  | _, [] => none
  | fuel + 1, b :: rest =>
    let v := b.toNat
    let cls := v / 64
    let c := (v / 32) % 2 == 1
    let num := v % 32
    if num = 31 then none else
    match decLen rest with
    | none => none
    | some (n, rest') =>
      if rest'.length < n then none else
      let content := rest'.take n
      let after := rest'.drop n
      if c then
        match decodeList fuel content with
        | none => none
        | some ch => some (.cons cls num ch, after)
      else some (.prim cls num content, after)
def decodeList : Nat → Bytes → Option (List Asn1)
  | 0, _ => none
  | _, [] => some []
  | fuel + 1, bs@(_ :: _) =>
    match decode fuel bs with
    | none => none
    | some (t, rest) =>
      match decodeList fuel rest with
      | none => none
      | some ts => some (t :: ts)
end

mutual
def Asn1.size : Asn1 → Nat
  | .prim _ _ _ => 1
  | .cons _ _ ch => 1 + sizeList ch
  | .raw _ => 1
def sizeList : List Asn1 → Nat
  | [] => 1
  | t :: ts => 1 + t.size + sizeList ts
end

/-- decode a complete byte string as exactly one element, no trailing bytes -/
def decodeAll (b : Bytes) : Option Asn1 :=
  match decode (2 * b.length + 2) b with
  | some (t, []) => some t
  | _ => none

/-! constructors used by the model writers (universal tag numbers of X.680) -/
namespace Asn1
def seq (kids : List Asn1) : Asn1 := .cons 0 16 kids
def set (kids : List Asn1) : Asn1 := .cons 0 17 kids
def bool (b : Bool) : Asn1 := .prim 0 1 [if b then 255 else 0]
def null : Asn1 := .prim 0 5 []
def octets (b : Bytes) : Asn1 := .prim 0 4 b
def utf8 (b : Bytes) : Asn1 := .prim 0 12 b
def printable (b : Bytes) : Asn1 := .prim 0 19 b
def teletex (b : Bytes) : Asn1 := .prim 0 20 b
def ia5 (b : Bytes) : Asn1 := .prim 0 22 b
def utcTime (b : Bytes) : Asn1 := .prim 0 23 b
def genTime (b : Bytes) : Asn1 := .prim 0 24 b
def universalStr (b : Bytes) : Asn1 := .prim 0 28 b
def bmp (b : Bytes) : Asn1 := .prim 0 30 b
/-- yasna `write_tagged` : EXPLICIT context tag -/
def explicit (n : Nat) (t : Asn1) : Asn1 := .cons 2 n [t]
/-- yasna `write_tagged_implicit`: the next identifier's class/number are replaced, the
    primitive/constructed bit is kept; `write_der` ignores a pending implicit tag -/
def implicit (n : Nat) : Asn1 → Asn1
  | .prim _ _ c => .prim 2 n c
  | .cons _ _ k => .cons 2 n k
  | .raw b => .raw b
end Asn1

/-! content encoders -/

/-- drop leading zero octets -/
def stripZeros : Bytes → Bytes
  | [] => []
  | b :: bs => if b = 0 then stripZeros bs else b :: bs

/-- yasna `write_bigint_bytes(bytes, true)` content octets -/
def intContentOfBytes (bs : Bytes) : Bytes :=
  match stripZeros bs with
  | [] => [0]
  | b :: r => if b.toNat ≥ 128 then 0 :: b :: r else b :: r

def Asn1.intOfBytes (bs : Bytes) : Asn1 := .prim 0 2 (intContentOfBytes bs)

/-- minimal two's-complement content of a non-negative number (yasna `write_u8`/`write_u64`
    /`write_enum` on non-negative values) -/
def intContentOfNat (n : Nat) : Bytes := intContentOfBytes (beBytes n)

def Asn1.intOfNat (n : Nat) : Asn1 := .prim 0 2 (intContentOfNat n)
def Asn1.enumOfNat (n : Nat) : Asn1 := .prim 0 10 (intContentOfNat n)

/-- yasna `write_bitvec_bytes(bytes, len)` with `8*|bytes| - 8 < len ≤ 8*|bytes|` -/
def bitStringContent (bs : Bytes) (nbits : Nat) : Bytes :=
  let unused := 8 * bs.length - nbits
  match bs.reverse with
  | [] => [UInt8.ofNat unused]
  | last :: initRev =>
    let mask : Nat := 255 - (255 >>> (8 - unused))
    UInt8.ofNat unused :: (initRev.reverse ++ [UInt8.ofNat (last.toNat &&& mask)])

def Asn1.bitString (bs : Bytes) (nbits : Nat) : Asn1 := .prim 0 3 (bitStringContent bs nbits)
/-- whole-octet bit string (keys, signatures) -/
def Asn1.bitStringOctets (bs : Bytes) : Asn1 := Asn1.bitString bs (8 * bs.length)

/-- base-128 digits, most significant first, continuation bits set on all but the last -/
def base128Hi : Nat → Nat → Bytes
  | 0, _ => []
  | f + 1, n => if n = 0 then [] else base128Hi f (n / 128) ++ [UInt8.ofNat (128 + n % 128)]

def base128 (n : Nat) : Bytes := base128Hi n (n / 128) ++ [UInt8.ofNat (n % 128)]

/-- yasna's `write_oid` assertion -/
def oidOk (arcs : List Nat) : Bool :=
  match arcs with
  | a :: b :: _ => a < 3 && b < 18446744073709551535 && (a ≥ 2 || b < 40)
  | _ => false

def oidContent (arcs : List Nat) : Bytes :=
  match arcs with
  | a :: b :: rest => base128 (a * 40 + b) ++ rest.flatMap base128
  | _ => []

def Asn1.oid (arcs : List Nat) : Asn1 := .prim 0 6 (oidContent arcs)

def isAscii (b : Bytes) : Bool := b.all (fun x => x.toNat < 128)

/-- SET OF: elements ordered by their encodings (`bufs.sort()` in yasna `write_set_of`) -/
def sortByEncoding (kids : List Asn1) : List Asn1 :=
  kids.mergeSort (fun a b => bytesLe (encode a) (encode b))

def Asn1.setOf (kids : List Asn1) : Asn1 := .cons 0 17 (sortByEncoding kids)

end Rcgen
