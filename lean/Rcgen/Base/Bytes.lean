/-
  Byte strings and the Nat <-> big-endian bytes conversions used everywhere.
  No imports beyond core: this file is linked into the driver executable.
-/
namespace Rcgen

abbrev Bytes := List UInt8

/-- big-endian minimal bytes of a Nat (empty for 0); fuel-structural so that the kernel can
    evaluate it (`decide` over finite tables) -/
def beBytesAux : Nat → Nat → Bytes
  | 0, _ => []
  | f + 1, n => if n = 0 then [] else beBytesAux f (n / 256) ++ [UInt8.ofNat (n % 256)]

def beBytes (n : Nat) : Bytes := beBytesAux n n

theorem beBytesAux_fuel (f g n : Nat) (hf : n ≤ f) (hg : n ≤ g) :
    beBytesAux f n = beBytesAux g n := by
  induction f generalizing g n with
  | zero =>
    have : n = 0 := by omega
    subst this
    cases g <;> simp [beBytesAux]
  | succ f ih =>
    cases g with
    | zero =>
      have : n = 0 := by omega
      subst this; simp [beBytesAux]
    | succ g =>
      simp only [beBytesAux]
      split
      · rfl
      · rw [ih g (n / 256) (by omega) (by omega)]

theorem beBytes_unfold (n : Nat) :
    beBytes n = if n = 0 then [] else beBytes (n / 256) ++ [UInt8.ofNat (n % 256)] := by
  unfold beBytes
  cases n with
  | zero => simp [beBytesAux]
  | succ m =>
    simp only [beBytesAux]
    split
    · rfl
    · rw [beBytesAux_fuel m ((m + 1) / 256) ((m + 1) / 256) (by omega) (by omega)]

/-- big-endian value of a byte string -/
def ofBe (bs : Bytes) : Nat := bs.foldl (fun acc b => acc * 256 + b.toNat) 0

/-- fixed-width big-endian bytes (`k` bytes, value taken modulo 256^k) -/
def beBytesFixed : Nat → Nat → Bytes
  | 0, _ => []
  | k + 1, n => beBytesFixed k (n / 256) ++ [UInt8.ofNat (n % 256)]

theorem ofBe_append_single (bs : Bytes) (b : UInt8) :
    ofBe (bs ++ [b]) = ofBe bs * 256 + b.toNat := by
  simp [ofBe, List.foldl_append]

theorem ofBe_beBytes (n : Nat) : ofBe (beBytes n) = n := by
  induction n using Nat.strongRecOn with
  | _ n ih =>
    rw [beBytes_unfold]
    split
    · simp [ofBe, *]
    · rw [ofBe_append_single, ih (n/256) (by omega)]
      simp [UInt8.toNat_ofNat']; omega

theorem beBytes_ne_nil {n : Nat} (h : n ≠ 0) : (beBytes n) ≠ [] := by
  rw [beBytes_unfold]; simp [h]

theorem beBytes_head_ne_zero (n : Nat) : (beBytes n).head? ≠ some 0 := by
  induction n using Nat.strongRecOn with
  | _ n ih =>
    rw [beBytes_unfold]
    split
    · simp
    · rename_i h
      by_cases h2 : n / 256 = 0
      · have : beBytes (n/256) = [] := by rw [beBytes_unfold]; simp [h2]
        rw [this]; simp
        intro hc
        have : n % 256 ≠ 0 := by omega
        have h3 : (UInt8.ofNat (n % 256)).toNat = n % 256 := by simp [UInt8.toNat_ofNat']
        rw [hc] at h3; simp at h3; omega
      · have := ih (n/256) (by omega)
        have hne := beBytes_ne_nil h2
        cases hb : beBytes (n/256) with
        | nil => exact absurd hb hne
        | cons a as => rw [hb] at this; simpa using this

theorem beBytes_length_le (n : Nat) (k : Nat) (h : n < 256 ^ k) : (beBytes n).length ≤ k := by
  induction k generalizing n with
  | zero => simp at h; subst h; rw [beBytes_unfold]; simp
  | succ k ih =>
    rw [beBytes_unfold]; split
    · simp
    · simp; apply ih; rw [Nat.pow_succ] at h; omega

theorem beBytesFixed_length (k n : Nat) : (beBytesFixed k n).length = k := by
  induction k generalizing n with
  | zero => simp [beBytesFixed]
  | succ k ih => simp [beBytesFixed, ih]

theorem ofBe_beBytesFixed (k n : Nat) (h : n < 256 ^ k) : ofBe (beBytesFixed k n) = n := by
  induction k generalizing n with
  | zero => simp at h; subst h; simp [beBytesFixed, ofBe]
  | succ k ih =>
    simp only [beBytesFixed]
    rw [ofBe_append_single, ih (n / 256) (by rw [Nat.pow_succ] at h; omega)]
    simp [UInt8.toNat_ofNat']; omega

/-! hex (driver protocol, replay files) -/

def hexDigit (n : Nat) : Char :=
  if n < 10 then Char.ofNat (48 + n) else Char.ofNat (87 + n)

def hexOfBytes (bs : Bytes) : String :=
  String.ofList (bs.flatMap fun b => [hexDigit (b.toNat / 16), hexDigit (b.toNat % 16)])

def hexVal (c : Char) : Option Nat :=
  let n := c.toNat
  if 48 ≤ n ∧ n ≤ 57 then some (n - 48)
  else if 97 ≤ n ∧ n ≤ 102 then some (n - 87)
  else if 65 ≤ n ∧ n ≤ 70 then some (n - 55)
  else none

def bytesOfHexChars : List Char → Option Bytes
  | [] => some []
  | [_] => none
  | a :: b :: rest =>
    match hexVal a, hexVal b, bytesOfHexChars rest with
    | some x, some y, some r => some (UInt8.ofNat (x * 16 + y) :: r)
    | _, _, _ => none

def bytesOfHex (s : String) : Option Bytes := bytesOfHexChars s.toList

/-- lexicographic order on byte strings, as `Vec<u8>::cmp` (shorter prefix first) -/
def bytesLe : Bytes → Bytes → Bool
  | [], _ => true
  | _ :: _, [] => false
  | a :: as, b :: bs => if a < b then true else if b < a then false else bytesLe as bs

end Rcgen
