import Rcgen.Model.Strings
import Rcgen.Model.Cert
import Rcgen.Spec.X509
/-
  rcgen's glue from *decoded content* to parameters: certificate.rs `from_ca_cert_der` and its
  `convert_x509_*` helpers, lib.rs `DistinguishedName::from_name`, `SanType::try_from_general`,
  `KeyUsagePurpose::from_u16`.  The decoded content type is the specification decoder's
  (`Spec.TbsCert`), standing in for x509-parser's.
-/
namespace Rcgen.Model
open Rcgen.Spec

/-- lib.rs `from_name`, one attribute value -/
def importValue (a : AttrTV) : Except Err DnValue :=
  if a.tag = 30 then
    match bmpFromUtf16be a.value with
    | some b => .ok (.bmp b)
    | none => .error .invalidAsn1String
  else if a.tag = 22 then
    if !utf8Valid a.value then .error .couldNotParseCertificate
    else if a.value.all (fun x => x.toNat < 128) then .ok (.ia5 a.value) else .error .invalidAsn1String
  else if a.tag = 19 then
    if !utf8Valid a.value then .error .couldNotParseCertificate
    else if a.value.all printableByte then .ok (.printable a.value) else .error .invalidAsn1String
  else if a.tag = 20 then
    if !utf8Valid a.value then .error .couldNotParseCertificate
    else if a.value.all (fun x => 32 ≤ x.toNat && x.toNat ≤ 127) then .ok (.teletex a.value)
    else .error .invalidAsn1String
  else if a.tag = 28 then
    match universalFromUtf32be a.value with
    | some b => .ok (.universal b)
    | none => .error .invalidAsn1String
  else if a.tag = 12 then
    if utf8Valid a.value then .ok (.utf8 a.value) else .error .couldNotParseCertificate
  else .error .couldNotParseCertificate

/-- lib.rs `from_name`: one attribute per RDN; each attribute is `push`ed -/
def importNameFrom (dn : DistinguishedName) : Name → Except Err DistinguishedName
  | [] => .ok dn
  | rdn :: rest =>
    match rdn with
    | [a] =>
      -- `oid_components`: a component that does not fit 64 bits is refused
      if a.oid.any (fun x => x ≥ 2 ^ 64) then .error .couldNotParseCertificate else
      match importValue a with
      | .ok v =>
        -- a repeated attribute type cannot be represented: refused, never collapsed
        if dn.containsKey (DnType.fromOid a.oid) then .error .couldNotParseCertificate
        else importNameFrom (dn.push (DnType.fromOid a.oid) v) rest
      | .error e => .error e
    | _ => .error .couldNotParseCertificate

def importName (n : Name) : Except Err DistinguishedName := importNameFrom DistinguishedName.new n

/-- lib.rs `SanType::try_from_general` -/
def importSan : GName → Except Err SanType
  | .rfc822 b => .ok (.rfc822 b)
  | .dns b => .ok (.dns b)
  | .uri b => .ok (.uri b)
  | .ip o => if o.length = 16 ∨ o.length = 4 then .ok (.ip o) else .error .invalidIpAddressOctetLength
  | .other oid tag c =>
    if oid.any (fun x => x ≥ 2 ^ 64) then .error .couldNotParseCertificate else
    if tag = 12 then (if utf8Valid c then .ok (.otherName oid c) else .error .couldNotParseCertificate)
    else .error .couldNotParseCertificate
  | .dirName _ => .error .invalidNameType

def importSans : List GName → Except Err (List SanType)
  | [] => .ok []
  | g :: rest =>
    match importSan g, importSans rest with
    | .ok s, .ok r => .ok (s :: r)
    | .error e, _ => .error e
    | _, .error e => .error e

/-- certificate.rs `convert_x509_general_subtrees`: unsupported kinds are skipped -/
def importSubtrees : List GName → Except Err (List GeneralSubtree)
  | [] => .ok []
  | g :: rest =>
    match importSubtrees rest with
    | .error e => .error e
    | .ok r =>
      match g with
      | .rfc822 b => .ok (.rfc822 b :: r)
      | .dns b => .ok (.dns b :: r)
      | .dirName n =>
        match importName n with
        | .ok dn => .ok (.directoryName dn :: r)
        | .error e => .error e
      | .ip o =>
        if o.length = 8 then .ok (.ip (.v4 (o.take 4) (o.drop 4)) :: r)
        else if o.length = 32 then .ok (.ip (.v6 (o.take 16) (o.drop 16)) :: r)
        else .ok r
      | _ => .ok r

/-- `KeyUsagePurpose::from_u16` applied to the reversed flags: the usages whose named bit is set,
    in declaration order -/
def importKeyUsages (bits : List Nat) : List KeyUsage :=
  KeyUsage.all.filter (fun k => bits.contains k.index)

def stdEkus : List Eku :=
  [.any, .serverAuth, .clientAuth, .codeSigning, .emailProtection, .timeStamping, .ocspSigning]

/-- certificate.rs `convert_x509_extended_key_usages`: the seven standard purposes in a fixed
    order; other OIDs are ignored -/
def importEkus (oids : List (List Nat)) : List Eku :=
  stdEkus.filter (fun e => oids.contains e.oid)

def findExts (c : TbsCert) (oid : List Nat) : List Ext := c.exts.filter (fun e => e.oid == oid)

/-- x509-parser `get_extension_unique`: error when the extension occurs twice -/
def uniqueExt (c : TbsCert) (oid : List Nat) : Except Err (Option Ext) :=
  match findExts c oid with
  | [] => .ok none
  | [e] => .ok (some e)
  | _ => .error .couldNotParseCertificate

def dateTimeOfEpoch (t : Int) : DateTime :=
  let u := utcOfEpoch t
  { year := u.year, month := u.month, day := u.day, hour := u.hour, minute := u.minute,
    second := u.second, nanos := 0, offset := 0 }

/-- `BigUint::from_bytes_be(content).to_bytes_be()` -/
def serialBytesOfNat (n : Nat) : Bytes := if n = 0 then [0] else beBytes n

def defaultDn : DistinguishedName :=
  DistinguishedName.new.push .commonName
    (.utf8 [114,99,103,101,110,32,115,101,108,102,32,115,105,103,110,101,100,32,99,101,114,116])

def importIsCa : Option Ext → Except Err IsCa
  | some ⟨_, _, .basicConstraints true (some n)⟩ =>
    if n ≤ 255 then .ok (.ca (some n)) else .error .couldNotParseCertificate
  | some ⟨_, _, .basicConstraints true none⟩ => .ok (.ca none)
  | some ⟨_, _, .basicConstraints false _⟩ => .ok .explicitNoCa
  | _ => .ok .noCa

def importSanExt : Option Ext → Except Err (List SanType)
  | some ⟨_, _, .san names⟩ => importSans names
  | _ => .ok []

def importNcExt : Option Ext → Except Err (Option NameConstraints)
  | some ⟨_, _, .nameConstraints p e⟩ =>
    match importSubtrees p, importSubtrees e with
    | .ok a, .ok b => .ok (some { permitted := a, excluded := b })
    | .error x, _ => .error x
    | _, .error x => .error x
  | _ => .ok none

def skiOf (e : Ext) : Option Bytes :=
  match e.value with
  | .ski b => some b
  | _ => none

def importKid (crypto : Bool) (c : TbsCert) : Except Err KeyIdMethod :=
  match c.exts.filterMap skiOf with
  | b :: _ => .ok (.preSpecified b)
  | [] => if crypto then .ok .sha256 else .error .unsupportedSignatureAlgorithm

def importKuExt : Option Ext → List KeyUsage
  | some ⟨_, _, .keyUsage bits⟩ => importKeyUsages bits
  | _ => []

def importEkuExt : Option Ext → List Eku
  | some ⟨_, _, .eku oids⟩ => importEkus oids
  | _ => []

/-- certificate.rs `from_ca_cert_der` after the parse (same order of evaluation) -/
def importCa (crypto : Bool) (c : TbsCert) : Except Err CertParams := do
  let dn ← importName c.subject
  let isCa ← importIsCa (← uniqueExt c [2, 5, 29, 19])
  let sans ← importSanExt (← uniqueExt c [2, 5, 29, 17])
  let ku ← uniqueExt c [2, 5, 29, 15]
  let eku ← uniqueExt c [2, 5, 29, 37]
  let ncs ← importNcExt (← uniqueExt c [2, 5, 29, 30])
  let kid ← importKid crypto c
  pure { notBefore := dateTimeOfEpoch c.notBefore.2, notAfter := dateTimeOfEpoch c.notAfter.2,
         serial := some (serialBytesOfNat c.serial), sans := sans, dn := dn, isCa := isCa,
         keyUsages := importKuExt ku, ekus := importEkuExt eku,
         nameConstraints := ncs, crlDps := [], customExts := [], useAki := false,
         keyIdMethod := kid }

end Rcgen.Model
