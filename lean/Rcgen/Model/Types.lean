import Rcgen.Base.Der
/-
  Lean mirrors of rcgen's public parameter types, with exactly the degrees of freedom the
  Rust types have.  Text fields are the UTF-8 bytes of the Rust `String`.
  OID arcs are `Nat` (u64 in Rust; `WF` predicates bound them where it matters).
-/
namespace Rcgen.Model

/-- certificate.rs `DnType` -/
inductive DnType where
  | country | locality | state | org | orgUnit | commonName
  | custom (oid : List Nat)
  deriving DecidableEq, Repr, Inhabited

/-- lib.rs `DnValue`; the payload is the *stored* byte string (validated by the constructors
    of string.rs for the five restricted kinds) -/
inductive DnValue where
  | bmp (b : Bytes) | ia5 (b : Bytes) | printable (b : Bytes)
  | teletex (b : Bytes) | universal (b : Bytes) | utf8 (b : Bytes)
  deriving DecidableEq, Repr, Inhabited

/-- lib.rs `DistinguishedName`: a `HashMap` (modelled as an association list with unique
    keys, in *unspecified* order) plus the insertion-order vector -/
structure DistinguishedName where
  entries : List (DnType × DnValue)
  order : List DnType
  deriving DecidableEq, Repr, Inhabited

inductive SanType where
  | rfc822 (b : Bytes) | dns (b : Bytes) | uri (b : Bytes)
  | ip (octets : Bytes)                       -- 4 or 16 octets
  | otherName (oid : List Nat) (utf8 : Bytes)
  deriving DecidableEq, Repr, Inhabited

inductive CidrSubnet where
  | v4 (addr mask : Bytes) | v6 (addr mask : Bytes)
  deriving DecidableEq, Repr, Inhabited

inductive GeneralSubtree where
  | rfc822 (b : Bytes) | dns (b : Bytes)
  | directoryName (dn : DistinguishedName)
  | ip (c : CidrSubnet)
  deriving DecidableEq, Repr, Inhabited

structure NameConstraints where
  permitted : List GeneralSubtree
  excluded : List GeneralSubtree
  deriving DecidableEq, Repr, Inhabited

inductive KeyUsage where
  | digitalSignature | contentCommitment | keyEncipherment | dataEncipherment | keyAgreement
  | keyCertSign | crlSign | encipherOnly | decipherOnly
  deriving DecidableEq, Repr, Inhabited

def KeyUsage.all : List KeyUsage :=
  [.digitalSignature, .contentCommitment, .keyEncipherment, .dataEncipherment, .keyAgreement,
   .keyCertSign, .crlSign, .encipherOnly, .decipherOnly]

/-- named-bit index (RFC 5280 §4.2.1.3) -/
def KeyUsage.index : KeyUsage → Nat
  | .digitalSignature => 0 | .contentCommitment => 1 | .keyEncipherment => 2
  | .dataEncipherment => 3 | .keyAgreement => 4 | .keyCertSign => 5 | .crlSign => 6
  | .encipherOnly => 7 | .decipherOnly => 8

inductive Eku where
  | any | serverAuth | clientAuth | codeSigning | emailProtection | timeStamping | ocspSigning
  | other (oid : List Nat)
  deriving DecidableEq, Repr, Inhabited

inductive IsCa where
  | noCa | explicitNoCa
  | ca (pathLen : Option Nat)        -- `BasicConstraints::Constrained(u8)` / `Unconstrained`
  deriving DecidableEq, Repr, Inhabited

inductive KeyIdMethod where
  | sha256 | sha384 | sha512
  | preSpecified (b : Bytes)
  deriving DecidableEq, Repr, Inhabited

structure CustomExtension where
  oid : List Nat
  critical : Bool
  content : Bytes
  deriving DecidableEq, Repr, Inhabited

structure CrlDistributionPoint where
  uris : List Bytes
  deriving DecidableEq, Repr, Inhabited

/-- `time::OffsetDateTime`: a civil date and time of day *in its own offset*, plus the offset
    (seconds east of UTC, |offset| ≤ 93 599) -/
structure DateTime where
  year : Int
  month : Nat
  day : Nat
  hour : Nat
  minute : Nat
  second : Nat
  nanos : Nat
  offset : Int
  deriving DecidableEq, Repr, Inhabited

structure CertParams where
  notBefore : DateTime
  notAfter : DateTime
  serial : Option Bytes
  sans : List SanType
  dn : DistinguishedName
  isCa : IsCa
  keyUsages : List KeyUsage
  ekus : List Eku
  nameConstraints : Option NameConstraints
  crlDps : List CrlDistributionPoint
  customExts : List CustomExtension
  useAki : Bool
  keyIdMethod : KeyIdMethod
  deriving DecidableEq, Repr, Inhabited

/-- sign_algo.rs: the public `SignatureAlgorithm` constants -/
inductive SigAlg where
  | rsaSha256 | rsaSha384 | rsaSha512 | ecdsaP256 | ecdsaP384 | ecdsaP521 | ed25519
  deriving DecidableEq, Repr, Inhabited

def SigAlg.all : List SigAlg :=
  [.rsaSha256, .rsaSha384, .rsaSha512, .ecdsaP256, .ecdsaP384, .ecdsaP521, .ed25519]

/-- anything implementing `PublicKeyData`: algorithm + raw key bytes -/
structure PubKey where
  alg : SigAlg
  raw : Bytes
  deriving DecidableEq, Repr, Inhabited

/-- lib.rs `Issuer` (the key pair is seen through its public part; signing is a parameter) -/
structure Issuer where
  dn : DistinguishedName
  keyIdMethod : KeyIdMethod
  keyUsages : List KeyUsage
  key : PubKey
  deriving DecidableEq, Repr, Inhabited

inductive RevocationReason where
  | unspecified | keyCompromise | caCompromise | affiliationChanged | superseded
  | cessationOfOperation | certificateHold | removeFromCrl | privilegeWithdrawn | aaCompromise
  deriving DecidableEq, Repr, Inhabited

def RevocationReason.code : RevocationReason → Nat
  | .unspecified => 0 | .keyCompromise => 1 | .caCompromise => 2 | .affiliationChanged => 3
  | .superseded => 4 | .cessationOfOperation => 5 | .certificateHold => 6
  | .removeFromCrl => 8 | .privilegeWithdrawn => 9 | .aaCompromise => 10

structure RevokedCert where
  serial : Bytes
  revocationTime : DateTime
  reason : Option RevocationReason
  invalidityDate : Option DateTime
  deriving DecidableEq, Repr, Inhabited

inductive CrlScope where
  | userCertsOnly | caCertsOnly
  deriving DecidableEq, Repr, Inhabited

structure CrlIdp where
  uris : List Bytes
  scope : Option CrlScope
  deriving DecidableEq, Repr, Inhabited

structure CrlParams where
  thisUpdate : DateTime
  nextUpdate : DateTime
  crlNumber : Bytes
  idp : Option CrlIdp
  revoked : List RevokedCert
  keyIdMethod : KeyIdMethod
  deriving DecidableEq, Repr, Inhabited

/-- certificate.rs `Attribute` -/
structure Attribute where
  oid : List Nat
  values : Bytes
  deriving DecidableEq, Repr, Inhabited

/-- rcgen `Error` variants the model can return -/
inductive Err where
  | unsupportedInCsr | invalidCrlNextUpdate | issuerNotCrlSigner | missingSerialNumber
  | remoteKeyError | ringUnspecified | couldNotParseCertificate
  | couldNotParseCertificationRequest | unsupportedExtension | unsupportedSignatureAlgorithm
  | invalidNameType | invalidAsn1String | invalidIpAddressOctetLength | couldNotParseKeyPair
  | ringKeyRejected | keyGenerationUnavailable | pemError | x509 | time | invalidOid
  | other (s : String)
  deriving DecidableEq, Repr, Inhabited

/-- outcome of a public API call -/
inductive Out (α : Type) where
  | ok (a : α)
  | err (e : Err)
  | panic (site : String)
  deriving Repr

/-- the hash family (ring / aws-lc-rs `digest`); theorems quantify over it -/
structure Hashes where
  sha256 : Bytes → Bytes
  sha384 : Bytes → Bytes
  sha512 : Bytes → Bytes

end Rcgen.Model
