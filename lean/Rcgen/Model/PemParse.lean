import Rcgen.Model.Pem
import Rcgen.Spec.Pem
/-
  pem 3.0.5 `parse` (parser.rs `parser_inner`, `read_until`, `skip_whitespace`,
  `extract_headers_and_data`; lib.rs `Pem::new_from_captures`, `decode_data`,
  `HeaderMap::parse`) — the lenient reader behind rcgen's own PEM loaders
  (`KeyPair::from_pem`, `from_ca_cert_pem`, `CertificateSigningRequestParams::from_pem`,
  `SubjectPublicKeyInfo::from_pem`), which take the first block of the text and use its
  contents whatever its label.  A third-party contract, written down because the last sentence
  of C14 is about it; tied to the real `pem::parse` on every text the C14 check produces.
-/
namespace Rcgen.Model

/-- `read_until`: one pass; on a mismatch `found` drops to 0 and the octet is not looked at
    again.  `seen` = the input consumed so far.  Result: (remaining, matched) -/
def readUntilLoop (marker : Bytes) : Bytes → Nat → Bytes → Option (Bytes × Bytes)
  | [], _, _ => none
  | c :: rest, found, seen =>
    if (c :: rest).length < marker.length - found then none
    else
      let found' := if marker[found]? == some c then found + 1 else 0
      let seen' := seen ++ [c]
      if found' == marker.length then some (rest, seen'.take (seen'.length - found'))
      else readUntilLoop marker rest found' seen'

def readUntil (input marker : Bytes) : Option (Bytes × Bytes) :=
  if marker.isEmpty then some ([], input) else readUntilLoop marker input 0 []

/-- the same matcher as the compiler sees it: the consumed input kept reversed and the remaining
    length carried along, so that a text of n octets costs n steps and not n² (`readUntilLoop`
    appends to `seen` and measures the rest at every octet).  `readUntil_eq_fast` below is the
    proof that nothing else changes; every theorem is about `readUntilLoop`. -/
def readUntilFast (marker : Bytes) (mlen : Nat) : Bytes → Nat → Nat → Bytes → Option (Bytes × Bytes)
  | [], _, _, _ => none
  | c :: rest, len, found, seenRev =>
    if len < mlen - found then none
    else
      let found' := if marker[found]? == some c then found + 1 else 0
      if found' == mlen then some (rest, ((c :: seenRev).drop found').reverse)
      else readUntilFast marker mlen rest (len - 1) found' (c :: seenRev)

theorem readUntilLoop_eq_fast (marker : Bytes) (l : Bytes) (found : Nat) (seen : Bytes) :
    readUntilLoop marker l found seen
      = readUntilFast marker marker.length l l.length found seen.reverse := by
  induction l generalizing found seen with
  | nil => simp [readUntilLoop, readUntilFast]
  | cons c rest ih =>
    unfold readUntilLoop readUntilFast
    have hrev : c :: seen.reverse = (seen ++ [c]).reverse := by simp
    dsimp only
    rw [show (c :: rest).length - 1 = rest.length from by simp]
    split
    · rfl
    · rw [ih, hrev, List.drop_reverse, List.reverse_reverse]

def readUntilImpl (input marker : Bytes) : Option (Bytes × Bytes) :=
  if marker.isEmpty then some ([], input) else readUntilFast marker marker.length input input.length 0 []

@[csimp] theorem readUntil_eq_fast : @readUntil = @readUntilImpl := by
  funext input marker
  simp [readUntil, readUntilImpl, readUntilLoop_eq_fast]

def isPemWs (b : UInt8) : Bool := b = 32 || b = 9 || b = 10 || b = 13

def skipWhitespace : Bytes → Bytes
  | [] => []
  | b :: rest => if isPemWs b then skipWhitespace rest else b :: rest

structure Captures where
  begin : Bytes
  headers : Bytes
  data : Bytes
  end_ : Bytes
  deriving DecidableEq, Repr

def extractHeadersAndData (payload : Bytes) : Bytes × Bytes :=
  match readUntil payload [10, 10] with
  | some (rest, headers) => (headers, rest)
  | none =>
    match readUntil payload [13, 10, 13, 10] with
    | some (rest, headers) => (headers, rest)
    | none => ([], payload)

def parserInner (input : Bytes) : Option (Bytes × Captures) :=
  match readUntil input beginPrefix with
  | none => none
  | some (i1, _) =>
    match readUntil i1 dashes with
    | none => none
    | some (i2, begin) =>
      match readUntil (skipWhitespace i2) endPrefix with
      | none => none
      | some (i4, payload) =>
        let hd := extractHeadersAndData payload
        match readUntil i4 dashes with
        | none => none
        | some (rem, e) => some (skipWhitespace rem, ⟨begin, hd.1, hd.2, e⟩)

/-- `char::is_whitespace` on ASCII (the data of a text rcgen wrote is ASCII; the Unicode spaces
    beyond it are in `stripUnicodeWs`) -/
def isAsciiWs (b : UInt8) : Bool := b = 32 || (9 ≤ b.toNat && b.toNat ≤ 13)

/-- how many octets at the head of `l` encode one White_Space character (0: none does).
    ASCII: U+0009..U+000D, U+0020; beyond: U+0085, U+00A0, U+1680, U+2000..U+200A, U+2028,
    U+2029, U+202F, U+205F, U+3000 in UTF-8 -/
def wsPrefixLen : Bytes → Nat
  | 0xC2 :: 0x85 :: _ => 2
  | 0xC2 :: 0xA0 :: _ => 2
  | 0xE1 :: 0x9A :: 0x80 :: _ => 3
  | 0xE2 :: 0x80 :: c :: _ =>
    if (0x80 ≤ c.toNat && c.toNat ≤ 0x8A) || c = 0xA8 || c = 0xA9 || c = 0xAF then 3 else 0
  | 0xE2 :: 0x81 :: 0x9F :: _ => 3
  | 0xE3 :: 0x80 :: 0x80 :: _ => 3
  | b :: _ => if isAsciiWs b then 1 else 0
  | [] => 0

/-- `raw_data.chars().filter(|c| !c.is_whitespace())` on UTF-8 bytes (fuel: the length) -/
def stripWsFuel : Nat → Bytes → Bytes
  | 0, _ => []
  | _ + 1, [] => []
  | f + 1, b :: r =>
    let n := wsPrefixLen (b :: r)
    if n = 0 then b :: stripWsFuel f r else stripWsFuel f ((b :: r).drop n)

def stripWs (l : Bytes) : Bytes := stripWsFuel l.length l

/-- `str::lines`: split at LF, a trailing CR of each line dropped, no empty last line -/
def headerLines (h : Bytes) : List Bytes :=
  let ls := Spec.splitLf h
  let ls := if ls.getLast? == some [] then ls.dropLast else ls
  ls.map (fun l => if l.getLast? == some 13 then l.dropLast else l)

inductive PemParseErr
  | malformedFraming | missingBeginTag | missingEndTag | mismatchedTags | invalidData | invalidHeader
  deriving DecidableEq, Repr

/-- `pem::parse`: the first block of a text -/
def pemParse (input : Bytes) : Except PemParseErr (Bytes × Bytes) :=
  match parserInner input with
  | none => .error .malformedFraming
  | some (_, c) =>
    if c.begin.isEmpty then .error .missingBeginTag
    else if c.end_.isEmpty then .error .missingEndTag
    else if c.begin != c.end_ then .error .mismatchedTags
    else
      match Spec.b64Decode (stripWs c.data) with
      | none => .error .invalidData
      | some contents =>
        -- `HeaderMap::parse`: every header line has a colon
        if (headerLines c.headers).all (fun l => l.contains 58) then .ok (c.begin, contents)
        else .error .invalidHeader

end Rcgen.Model
