import Rcgen.Model.Strings
/-
  error.rs: the `Error` values with their payloads, and `impl Display` for `Error` and
  `InvalidAsn1String`; string.rs: which payload the string constructors put into
  `InvalidAsn1String`; key_pair.rs:723-737: which text of a `pem::PemError` is kept.
  Text is UTF-8 bytes.
-/
namespace Rcgen.Model

def txt (s : String) : Bytes := s.toUTF8.toList

/-- error.rs `InvalidAsn1String` variants -/
inductive StrTy | printable | universal | ia5 | teletex | bmp
  deriving DecidableEq, Repr

/-- error.rs `Error`, every variant of every feature set -/
inductive ErrorV where
  | couldNotParseCertificate
  | couldNotParseCertificationRequest
  | couldNotParseKeyPair
  | invalidNameType
  | invalidAsn1String (ty : StrTy) (text : Bytes)
  | invalidOid
  | invalidIpAddressOctetLength (n : Nat)
  | keyGenerationUnavailable
  | unsupportedExtension
  | unsupportedSignatureAlgorithm
  | ringUnspecified
  | ringKeyRejected (msg : Bytes)
  | time
  | pemError (msg : Bytes)
  | remoteKeyError
  | unsupportedInCsr
  | invalidCrlNextUpdate
  | issuerNotCrlSigner
  | missingSerialNumber
  | x509 (msg : Bytes)
  deriving DecidableEq, Repr

def StrTy.label : StrTy → Bytes
  | .printable => txt "PrintableString"
  | .universal => txt "UniversalString"
  | .ia5 => txt "IA5String"
  | .teletex => txt "TeletexString"
  | .bmp => txt "BMPString"

/-- decimal digits of a number (`{}` of a `usize`) -/
def decimalAux : Nat → Nat → Bytes
  | 0, _ => []
  | f + 1, n => if n < 10 then [UInt8.ofNat (48 + n)] else decimalAux f (n / 10) ++ [UInt8.ofNat (48 + n % 10)]
def decimal (n : Nat) : Bytes := decimalAux (n + 1) n

/-- the constant text before the payload -/
def ErrorV.prefix : ErrorV → Bytes
  | .couldNotParseCertificate => txt "Could not parse certificate"
  | .couldNotParseCertificationRequest => txt "Could not parse certificate signing request"
  | .couldNotParseKeyPair => txt "Could not parse key pair"
  | .invalidNameType => txt "Invalid subject alternative name type"
  | .invalidAsn1String ty _ => txt "Invalid " ++ ty.label ++ txt ": '"
  | .invalidOid => txt "Invalid object identifier"
  | .invalidIpAddressOctetLength _ => txt "Invalid IP address octet length of "
  | .keyGenerationUnavailable => txt "There is no support for generating keys for the given algorithm"
  | .unsupportedExtension => txt "Unsupported extension requested in CSR"
  | .unsupportedSignatureAlgorithm => txt "The requested signature algorithm is not supported"
  | .ringUnspecified => txt "Unspecified ring error"
  | .ringKeyRejected _ => txt "Key rejected by ring: "
  | .time => txt "Time error"
  | .pemError _ => txt "PEM error: "
  | .remoteKeyError => txt "Remote key error"
  | .unsupportedInCsr => txt "Certificate parameter unsupported in CSR"
  | .invalidCrlNextUpdate => txt "Invalid CRL next update parameter"
  | .issuerNotCrlSigner => txt "CRL issuer must specify no key usage, or key usage including cRLSign"
  | .missingSerialNumber => txt "A serial number must be specified"
  | .x509 _ => txt "X.509 parsing error: "

/-- the one variable part of an error text -/
def ErrorV.payload : ErrorV → Bytes
  | .invalidAsn1String _ t => t
  | .invalidIpAddressOctetLength n => decimal n
  | .ringKeyRejected m => m
  | .pemError m => m
  | .x509 m => m
  | _ => []

/-- the constant text after the payload -/
def ErrorV.suffix : ErrorV → Bytes
  | .invalidAsn1String _ _ => txt "'"
  | .invalidIpAddressOctetLength _ => txt " bytes"
  | _ => []

/-- `impl Display for Error` -/
def ErrorV.display (e : ErrorV) : Bytes := e.prefix ++ e.payload ++ e.suffix

/-! ### which payload the string constructors choose (string.rs) -/

def badUtf16 : Bytes := txt "Invalid UTF-16 encoding"
def badUtf32 : Bytes := txt "Invalid UTF-32 encoding"

/-- the error of a text constructor (`TryFrom<&str>` / `TryFrom<String>` / `FromStr`), `none`
    when the text is accepted: the three byte-checked types echo the refused text, `BmpString`
    goes through `from_utf16be` and reports its fixed message, `UniversalString` accepts every
    text -/
def strCtorError (k : StrKind) (s : List Char) : Option ErrorV :=
  match ctor k s with
  | some _ => none
  | none =>
    match k with
    | .printable => some (.invalidAsn1String .printable (utf8 s))
    | .ia5 => some (.invalidAsn1String .ia5 (utf8 s))
    | .teletex => some (.invalidAsn1String .teletex (utf8 s))
    | .bmp => some (.invalidAsn1String .bmp badUtf16)
    | .universal => none

/-- the byte-level constructors report a fixed message, never the bytes -/
def bmpBytesError (b : Bytes) : Option ErrorV :=
  match bmpFromUtf16be b with
  | some _ => none
  | none => some (.invalidAsn1String .bmp badUtf16)

def universalBytesError (b : Bytes) : Option ErrorV :=
  match universalFromUtf32be b with
  | some _ => none
  | none => some (.invalidAsn1String .universal badUtf32)

/-! ### pem::PemError (key_pair.rs `_err`) -/

/-- pem 3.0.5 `PemError`: the two variants that quote input, and the rest with their own text -/
inductive PemErr where
  | mismatchedTags (b e : Bytes)
  | invalidHeader (h : Bytes)
  | other (text : Bytes)

/-- what rcgen keeps of it: for the quoting variants a fixed text -/
def pemErrorOf : PemErr → ErrorV
  | .mismatchedTags _ _ => .pemError (txt "mismatching BEGIN and END tags")
  | .invalidHeader _ => .pemError (txt "invalid header")
  | .other t => .pemError t

end Rcgen.Model
