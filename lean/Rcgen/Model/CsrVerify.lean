import Rcgen.Model.CsrParse
/-
  csr.rs:108-123 and `verify_ecdsa_p521` (313-338): which verifier's word `from_der` takes for
  "the signature verifies under the embedded key".  The third-party verifier (x509-parser's
  `verify_signature`, ring-based) answers ok, "unsupported algorithm", or another error; only
  after "unsupported algorithm", only in an aws-lc-rs build, only for a request signed under
  ecdsa-with-SHA512 whose SubjectPublicKeyInfo algorithm is exactly id-ecPublicKey / secp521r1
  does rcgen verify itself, with the back end's ECDSA P-521 / SHA-512 verification of the key
  octets.  Both verifiers are parameters; the decision between them is rcgen's.
-/
namespace Rcgen.Model

inductive ThirdPartyVerdict | ok | unsupportedAlgorithm | failed
  deriving DecidableEq, Repr

/-- the verification predicate `parseCsr` is run with: arguments as there (SubjectPublicKeyInfo
    DER, certificationRequestInfo DER, signature AlgorithmIdentifier DER, signature octets) -/
def rcgenVerify (p521 : Bool)
    (thirdParty : Bytes → Bytes → Bytes → Bytes → ThirdPartyVerdict)
    (ownP521 : Bytes → Bytes → Bytes → Bool)     -- key octets, signed bytes, signature
    (spki info algDer sig : Bytes) : Bool :=
  match thirdParty spki info algDer sig with
  | .ok => true
  | .failed => false
  | .unsupportedAlgorithm =>
    p521 &&
    ((algIdOid algDer).bind (sigAlgFromOid p521) == some SigAlg.ecdsaP521) &&
    (match spkiParts spki with
     | some (keyAlg, keyBits) =>
       keyAlg == encode (spkiAlgIdent .ecdsaP521) && ownP521 keyBits info sig
     | none => false)

/-- `CertificateSigningRequestParams::from_der` with both verifiers explicit -/
def parseCsrWith (p521 crypto : Bool)
    (thirdParty : Bytes → Bytes → Bytes → Bytes → ThirdPartyVerdict)
    (ownP521 : Bytes → Bytes → Bytes → Bool) (der : Bytes) : Except Err CsrParsed :=
  parseCsr p521 crypto (rcgenVerify p521 thirdParty ownP521) der

end Rcgen.Model
