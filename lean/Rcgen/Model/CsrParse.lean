import Rcgen.Model.Import
/-
  csr.rs `CertificateSigningRequestParams::from_der` after the parse, and `signed_by`.
  Signature verification is a parameter (the embedded key, the certificationRequestInfo bytes
  and the signature are handed to an abstract `verify`).
-/
namespace Rcgen.Model
open Rcgen.Spec

/-- which `SignatureAlgorithm` constants the build offers (ring has no P-521) -/
def buildAlgs (p521 : Bool) : List SigAlg :=
  [.rsaSha256, .rsaSha384, .rsaSha512, .ecdsaP256, .ecdsaP384] ++
  (if p521 then [.ecdsaP521] else []) ++ [.ed25519]

/-- `SignatureAlgorithm::from_oid` -/
def sigAlgFromOid (p521 : Bool) (oid : List Nat) : Option SigAlg :=
  (buildAlgs p521).find? (fun a => a.sigOid == oid)

/-- OID of an AlgorithmIdentifier given as DER -/
def algIdOid (der : Bytes) : Option (List Nat) :=
  match decodeAll der with
  | some (.cons 0 16 (o :: _)) => asOid o
  | _ => none

/-- (algorithm DER, key bits) of a SubjectPublicKeyInfo given as DER -/
def spkiParts (der : Bytes) : Option (Bytes × Bytes) :=
  match decodeAll der with
  | some (.cons 0 16 [alg, .prim 0 3 (_ :: key)]) => some (encode alg, key)
  | _ => none

structure CsrParsed where
  params : CertParams
  key : PubKey
  deriving DecidableEq, Repr

def defaultParams : CertParams :=
  { notBefore := ⟨1975, 1, 1, 0, 0, 0, 0, 0⟩, notAfter := ⟨4096, 1, 1, 0, 0, 0, 0, 0⟩,
    serial := none, sans := [], dn := defaultDn, isCa := .noCa, keyUsages := [], ekus := [],
    nameConstraints := none, crlDps := [], customExts := [], useAki := false,
    keyIdMethod := .sha256 }

/-- `insert_extended_key_usage` for the seven standard purposes, in the code's order -/
def insertStdEkus (cur : List Eku) (oids : List (List Nat)) : List Eku :=
  stdEkus.foldl (fun acc e => if oids.contains e.oid && !acc.contains e then acc ++ [e] else acc) cur

/-- csr.rs:123-180: fold over the requested extensions -/
def applyRequested (p : CertParams) : List Ext → Except Err CertParams
  | [] => .ok p
  | e :: rest =>
    match e.value with
    | .keyUsage bits => applyRequested { p with keyUsages := importKeyUsages bits } rest
    | .san names =>
      match importSans names with
      | .ok s => applyRequested { p with sans := p.sans ++ s } rest
      | .error x => .error x
    | .eku oids =>
      if oids.all (fun o => stdEkus.any (fun e => e.oid == o)) then
        applyRequested { p with ekus := insertStdEkus p.ekus oids } rest
      else .error .unsupportedExtension
    | _ => .error .unsupportedExtension

/-- the key algorithm recorded for the requester's key: the signature-derived algorithm when
    its SubjectPublicKeyInfo AlgorithmIdentifier is the request's, else the first algorithm of
    the build whose identifier is -/
def csrKeyAlg (p521 : Bool) (sigAlg : SigAlg) (spkiAlgDer : Bytes) : Option SigAlg :=
  if encode (spkiAlgIdent sigAlg) == spkiAlgDer then some sigAlg
  else (buildAlgs p521).find? (fun a => encode (spkiAlgIdent a) == spkiAlgDer)

/-- `from_der`: `verified` is the outcome of verifying the signature under the embedded key
    over the certificationRequestInfo bytes -/
def parseCsr (p521 : Bool) (crypto : Bool) (verify : Bytes → Bytes → Bytes → Bytes → Bool)
    (der : Bytes) : Except Err CsrParsed :=
  match splitSigned der with
  | none => .error .couldNotParseCertificationRequest
  | some (infoDer, algDer, sig) =>
    match decodeCsrInfo infoDer, spkiParts ((decodeCsrInfo infoDer).map (·.spki) |>.getD []) with
    | some info, some (spkiAlg, keyBits) =>
      if !verify info.spki infoDer algDer sig then .error .ringUnspecified else
      match algIdOid algDer with
      | none => .error .couldNotParseCertificationRequest
      | some oid =>
        match sigAlgFromOid p521 oid with
        | none => .error .unsupportedSignatureAlgorithm
        | some sigAlg =>
          match csrKeyAlg p521 sigAlg spkiAlg with
          | none => .error .unsupportedSignatureAlgorithm
          | some alg =>
          match importName info.subject with
          | .error e => .error e
          | .ok dn =>
            let kid : KeyIdMethod := if crypto then .sha256 else .preSpecified []
            let base : CertParams := { defaultParams with dn := dn, keyIdMethod := kid }
            let requested : Except Err (List Ext) :=
              match info.attrs.find? (fun a => a.oid == [1, 2, 840, 113549, 1, 9, 14]) with
              | none => .ok []
              | some a =>
                match decodeExtensionRequest a.values with
                | some exts => .ok exts
                | none => .error .couldNotParseCertificationRequest
            match requested with
            | .error e => .error e
            | .ok exts =>
              match applyRequested base exts with
              | .error e => .error e
              | .ok params => .ok { params := params, key := { alg := alg, raw := keyBits } }
    | _, _ => .error .couldNotParseCertificationRequest

end Rcgen.Model
