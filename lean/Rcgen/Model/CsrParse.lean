import Rcgen.Model.Import
/-
  csr.rs `CertificateSigningRequestParams::from_der` after the parse, and `signed_by`.
  Signature verification is a parameter (the embedded key, the certificationRequestInfo bytes
  and the signature are handed to an abstract `verify`).
-/
namespace Rcgen.Model
open Rcgen.Spec

/-- which `SignatureAlgorithm` constants the build offers (ring has no P-521) -/
def buildAlgs (p521 : Bool) : List SigAlg :=
  [.rsaSha256, .rsaSha384, .rsaSha512, .ecdsaP256, .ecdsaP384] ++
  (if p521 then [.ecdsaP521] else []) ++ [.ed25519]

/-- `SignatureAlgorithm::from_oid` -/
def sigAlgFromOid (p521 : Bool) (oid : List Nat) : Option SigAlg :=
  (buildAlgs p521).find? (fun a => a.sigOid == oid)

/-- OID of an AlgorithmIdentifier given as DER -/
def algIdOid (der : Bytes) : Option (List Nat) :=
  match decodeAll der with
  | some (.cons 0 16 (o :: _)) => asOid o
  | _ => none

/-- (algorithm DER, key bits) of a SubjectPublicKeyInfo given as DER -/
def spkiParts (der : Bytes) : Option (Bytes × Bytes) :=
  match decodeAll der with
  | some (.cons 0 16 [alg, .prim 0 3 (_ :: key)]) => some (encode alg, key)
  | _ => none

structure CsrParsed where
  params : CertParams
  key : PubKey
  deriving DecidableEq, Repr

def defaultParams : CertParams :=
  { notBefore := ⟨1975, 1, 1, 0, 0, 0, 0, 0⟩, notAfter := ⟨4096, 1, 1, 0, 0, 0, 0, 0⟩,
    serial := none, sans := [], dn := defaultDn, isCa := .noCa, keyUsages := [], ekus := [],
    nameConstraints := none, crlDps := [], customExts := [], useAki := false,
    keyIdMethod := .sha256 }

/-- `insert_extended_key_usage` for the seven standard purposes, in the code's order -/
def insertStdEkus (cur : List Eku) (oids : List (List Nat)) : List Eku :=
  stdEkus.foldl (fun acc e => if oids.contains e.oid && !acc.contains e then acc ++ [e] else acc) cur

/-- the content of an Extension's extnValue OCTET STRING -/
def rawExtOf : Asn1 → Option Bytes
  | .cons 0 16 [_, .prim 0 4 v] => some v
  | .cons 0 16 [_, _, .prim 0 4 v] => some v
  | _ => none

/-- the raw extension values (content of each extnValue OCTET STRING) of an extensionRequest
    attribute's SET, in order; `none` when the SET does not hold exactly one SEQUENCE OF Extension -/
def rawExtValues (values : Bytes) : Option (List Bytes) :=
  match decodeAll values with
  | some (.cons 0 17 [.cons 0 16 exts]) => exts.mapM rawExtOf
  | _ => none

/-- number of values in an attribute's SET -/
def attrValueCount (values : Bytes) : Nat :=
  match decodeAll values with
  | some (.cons 0 17 vs) => vs.length
  | _ => 0

/-- csr.rs: the loop over the requested extensions (each with the raw bytes of its value).
    `seen` are the extension identifiers met so far: a repeated one is refused. -/
def applyRequested (p : CertParams) (seen : List (List Nat)) : List (Ext × Bytes) → Except Err CertParams
  | [] => .ok p
  | (e, raw) :: rest =>
    if seen.contains e.oid then .error .unsupportedExtension else
    match e.value with
    | .keyUsage bits =>
      let kus := importKeyUsages bits
      -- bits without a `KeyUsagePurpose`, or none at all, cannot be issued
      if kus.isEmpty || encode (keyUsageValue kus) != raw then .error .unsupportedExtension
      else applyRequested { p with keyUsages := kus } (e.oid :: seen) rest
    | .san names =>
      match importSans names with
      | .ok s =>
        -- no name at all, or names that would not be written back as requested, cannot be issued
        if s.isEmpty || encode (.seq (s.map sanNode)) != raw then .error .unsupportedExtension
        else applyRequested { p with sans := p.sans ++ s } (e.oid :: seen) rest
      | .error x => .error x
    | .eku oids =>
      -- purposes without an `ExtendedKeyUsagePurpose`, or none at all, cannot be issued
      if oids.all (fun o => stdEkus.any (fun e => e.oid == o)) &&
          !(insertStdEkus p.ekus oids).isEmpty then
        applyRequested { p with ekus := insertStdEkus p.ekus oids } (e.oid :: seen) rest
      else .error .unsupportedExtension
    | _ => .error .unsupportedExtension

/-- the key algorithm recorded for the requester's key: the signature-derived algorithm when
    its SubjectPublicKeyInfo AlgorithmIdentifier is the request's, else the first algorithm of
    the build whose identifier is -/
def csrKeyAlg (p521 : Bool) (sigAlg : SigAlg) (spkiAlgDer : Bytes) : Option SigAlg :=
  if encode (spkiAlgIdent sigAlg) == spkiAlgDer then some sigAlg
  else (buildAlgs p521).find? (fun a => encode (spkiAlgIdent a) == spkiAlgDer)

/-- `SignatureAlgorithm::same_key_type`: the first OID of the SubjectPublicKeyInfo algorithm
    (rsaEncryption, id-ecPublicKey, id-Ed25519) is the same -/
def SigAlg.sameKeyType (a b : SigAlg) : Bool := a.keyOids.head? == b.keyOids.head?

def extensionRequestOid : List Nat := [1, 2, 840, 113549, 1, 9, 14]

/-- the extension requests of a certificationRequestInfo: none, or exactly one attribute with
    exactly one value (anything else would be honoured in part), decoded with the raw values -/
def csrExtensionRequests (attrs : List CsrAttr) : Except Err (List (Ext × Bytes)) :=
  match attrs.filter (fun a => a.oid == extensionRequestOid) with
  | [] => .ok []
  | [a] =>
    match decodeExtensionRequest a.values, rawExtValues a.values with
    | some exts, some raws => .ok (exts.zip raws)
    | _, _ =>
      if attrValueCount a.values > 1 then .error .unsupportedExtension
      else .error .couldNotParseCertificationRequest
  | _ => .error .unsupportedExtension

/-- `from_der`: `verified` is the outcome of verifying the signature under the embedded key
    over the certificationRequestInfo bytes -/
def parseCsr (p521 : Bool) (crypto : Bool) (verify : Bytes → Bytes → Bytes → Bytes → Bool)
    (der : Bytes) : Except Err CsrParsed :=
  match splitSigned der with
  | none => .error .couldNotParseCertificationRequest
  | some (infoDer, algDer, sig) =>
    match decodeCsrInfo infoDer, spkiParts ((decodeCsrInfo infoDer).map (·.spki) |>.getD []) with
    | some info, some (spkiAlg, keyBits) =>
      if !verify info.spki infoDer algDer sig then .error .ringUnspecified else
      match algIdOid algDer with
      | none => .error .couldNotParseCertificationRequest
      | some oid =>
        match sigAlgFromOid p521 oid with
        | none => .error .unsupportedSignatureAlgorithm
        | some sigAlg =>
          match csrKeyAlg p521 sigAlg spkiAlg with
          | none => .error .unsupportedSignatureAlgorithm
          | some alg =>
          -- the signature was checked with the algorithm its OID names on the key bits alone
          if !alg.sameKeyType sigAlg then .error .unsupportedSignatureAlgorithm else
          match importName info.subject with
          | .error e => .error e
          | .ok dn =>
            let kid : KeyIdMethod := if crypto then .sha256 else .preSpecified []
            let base : CertParams := { defaultParams with dn := dn, keyIdMethod := kid }
            match csrExtensionRequests info.attrs with
            | .error e => .error e
            | .ok exts =>
              match applyRequested base [] exts with
              | .error e => .error e
              | .ok params =>
                -- the certificate's SubjectPublicKeyInfo is written from (algorithm, key bits):
                -- a request whose own is encoded otherwise would not be copied byte for byte
                let key : PubKey := { alg := alg, raw := keyBits }
                if spkiDer key != info.spki then .error .couldNotParseCertificationRequest
                else .ok { params := params, key := key }
    | _, _ => .error .couldNotParseCertificationRequest

end Rcgen.Model
