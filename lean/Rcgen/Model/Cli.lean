import Rcgen.Model.Strings
import Rcgen.Model.CsrParse
/-
  rustls-cert-gen: main.rs:9-41 (order of work), 83-95 (`parse_sans`), cert.rs:21-37 (file
  writes), 86-121 (CA builder), 161-219 (end-entity builder), 223-290 (key algorithm).
  The tool as a function from parsed options to either an error (nothing written) or the two
  parameter sets and the ordered list of files written.  Text is UTF-8 bytes.
-/
namespace Rcgen.Model

inductive CliAlg | rsa | ed25519 | p256 | p384 | p521
  deriving DecidableEq, Repr

structure CliOptions where
  output : Bytes
  alg : CliAlg
  clientAuth : Bool
  serverAuth : Bool
  certFileName : Bytes
  caFileName : Bytes
  sans : List Bytes
  commonName : Bytes
  countryName : Bytes
  organizationName : Bytes
  deriving DecidableEq, Repr

/-! ### `IpAddr::from_str` -/

def isDigit (b : UInt8) : Bool := 48 ≤ b.toNat && b.toNat ≤ 57
def hexDigitVal (b : UInt8) : Option Nat :=
  let n := b.toNat
  if 48 ≤ n ∧ n ≤ 57 then some (n - 48)
  else if 97 ≤ n ∧ n ≤ 102 then some (n - 87)
  else if 65 ≤ n ∧ n ≤ 70 then some (n - 55)
  else none

/-- split at a separator byte -/
def splitOnByte (sep : UInt8) : Bytes → List Bytes
  | [] => [[]]
  | b :: rest =>
    match splitOnByte sep rest with
    | [] => [[b]]
    | l :: ls => if b = sep then [] :: l :: ls else (b :: l) :: ls

/-- one decimal octet: 1..3 digits, no leading zero unless the octet is "0", value ≤ 255 -/
def parseOctet (s : Bytes) : Option Nat :=
  if s.isEmpty || s.length > 3 || !s.all isDigit then none
  else if s.length > 1 && s.head? == some 48 then none
  else
    let v := s.foldl (fun acc b => acc * 10 + (b.toNat - 48)) 0
    if v ≤ 255 then some v else none

/-- `Ipv4Addr::from_str`: exactly four octets -/
def parseIpv4 (s : Bytes) : Option Bytes :=
  match (splitOnByte 46 s).map parseOctet with
  | [some a, some b, some c, some d] => some [UInt8.ofNat a, UInt8.ofNat b, UInt8.ofNat c, UInt8.ofNat d]
  | _ => none

/-- one group of an IPv6 literal: 1..4 hex digits -/
def parseGroup (s : Bytes) : Option Nat :=
  if s.isEmpty || s.length > 4 then none
  else s.foldl (fun acc b => match acc, hexDigitVal b with
    | some a, some d => some (a * 16 + d)
    | _, _ => none) (some 0)

/-- groups of a `:`-separated run, the last of which may be a dotted quad; returns 16-bit words -/
def parseGroups (allowV4Tail : Bool) (parts : List Bytes) : Option (List Nat) :=
  match parts.reverse with
  | [] => some []
  | last :: initRev =>
    let init := initRev.reverse.map parseGroup
    if init.any Option.isNone then none else
    let initW := init.filterMap id
    match parseGroup last with
    | some g => some (initW ++ [g])
    | none =>
      if allowV4Tail then
        match parseIpv4 last with
        | some [a, b, c, d] => some (initW ++ [a.toNat * 256 + b.toNat, c.toNat * 256 + d.toNat])
        | _ => none
      else none

def wordsToBytes (ws : List Nat) : Bytes := ws.flatMap (fun w => [UInt8.ofNat (w / 256), UInt8.ofNat (w % 256)])

/-- locate the first "::" -/
def splitDoubleColon : Bytes → Option (Bytes × Bytes)
  | [] => none
  | [_] => none
  | a :: b :: rest =>
    if a = 58 ∧ b = 58 then some ([], rest)
    else match splitDoubleColon (b :: rest) with
      | some (l, r) => some (a :: l, r)
      | none => none

/-- `Ipv6Addr::from_str` (RFC 4291 §2.2 text forms; no zone, no brackets) -/
def parseIpv6 (s : Bytes) : Option Bytes :=
  match splitDoubleColon s with
  | none =>
    match parseGroups true (splitOnByte 58 s) with
    | some ws => if ws.length = 8 then some (wordsToBytes ws) else none
    | none => none
  | some (l, r) =>
    -- a second "::" is an error; so is a stray ":" next to it
    if (splitDoubleColon r).isSome then none else
    let lw := if l.isEmpty then some [] else parseGroups false (splitOnByte 58 l)
    let rw := if r.isEmpty then some [] else parseGroups true (splitOnByte 58 r)
    match lw, rw with
    | some a, some b =>
      if a.length + b.length ≤ 7 then
        some (wordsToBytes (a ++ List.replicate (8 - a.length - b.length) 0 ++ b))
      else none
    | _, _ => none

/-- main.rs `parse_sans`: an IP literal becomes an IP address, anything else a DNS name
    (which must be ASCII) -/
def classifySan (s : Bytes) : Except Err SanType :=
  match parseIpv4 s with
  | some o => .ok (.ip o)
  | none =>
    match parseIpv6 s with
    | some o => .ok (.ip o)
    | none => if s.all (fun b => b.toNat < 128) then .ok (.dns s) else .error .invalidAsn1String

def classifySans : List Bytes → Except Err (List SanType)
  | [] => .ok []
  | s :: rest =>
    match classifySan s, classifySans rest with
    | .ok a, .ok r => .ok (a :: r)
    | .error e, _ => .error e
    | _, .error e => .error e

/-- which key algorithm the tool generates for an option (None: the back end cannot) -/
def cliKeyAlg (aws : Bool) : CliAlg → Option SigAlg
  | .rsa => if aws then some .rsaSha256 else none
  | .ed25519 => some .ed25519
  | .p256 => some .ecdsaP256
  | .p384 => some .ecdsaP384
  | .p521 => if aws then some .ecdsaP521 else none

/-- `CertificateBuilder::new()`: the default parameters with an empty name -/
def cliBase : CertParams := { defaultParams with dn := DistinguishedName.new }

/-- cert.rs `CaBuilder` -/
def cliCaParams (country org : Bytes) : CertParams :=
  { cliBase with
    isCa := .ca none
    keyUsages := [.digitalSignature, .keyCertSign, .crlSign]
    dn := (DistinguishedName.new.push .country (.printable country)).push .org (.utf8 org) }

/-- cert.rs `EndEntityBuilder` -/
def cliEeParams (cn : Bytes) (sans : List SanType) (client server : Bool) : CertParams :=
  { cliBase with
    isCa := .noCa
    useAki := true
    keyUsages := [.digitalSignature]
    dn := DistinguishedName.new.push .commonName (.utf8 cn)
    sans := sans
    ekus := (if client then [Eku.clientAuth] else []) ++ (if server then [Eku.serverAuth] else []) }

def pemSuffix : Bytes := [46, 112, 101, 109]                       -- ".pem"
def keyPemSuffix : Bytes := [46, 107, 101, 121, 46, 112, 101, 109] -- ".key.pem"
def keySuffix : Bytes := [46, 107, 101, 121]                       -- ".key"

/-- `str::split('/')` -/
def splitSlash : Bytes → List Bytes
  | [] => [[]]
  | b :: rest =>
    if b = 47 then [] :: splitSlash rest
    else match splitSlash rest with
      | [] => [[b]]
      | c :: cs => (b :: c) :: cs

/-- main.rs `lexical_path`: the components of a file name with `.` and empty components dropped
    and `name/..` resolved, and whether the name is absolute -/
def lexicalPath (name : Bytes) : Bool × List Bytes :=
  (name.head? == some 47,
   (splitSlash name).foldl (fun acc c =>
      if c == [] || c == [46] then acc
      else if c == [46, 46] then
        (match acc.getLast? with
         | some l => if l != [46, 46] then acc.dropLast else acc ++ [c]
         | none => acc ++ [c])
      else acc ++ [c]) [])

/-- the four files of a run, in the order they are created -/
def cliOutputs (cert ca : Bytes) : List Bytes :=
  [cert ++ keyPemSuffix, cert ++ pemSuffix, ca ++ keyPemSuffix, ca ++ pemSuffix]

/-- main.rs:12-24: `<name>.pem` and `<name>.key.pem` of the two base names have to be four
    different files — different as *files*: `./x`, `x` and `a/../x` are one file -/
def namesCollide (cert ca : Bytes) : Bool :=
  decide (¬ ((cliOutputs cert ca).map lexicalPath).Nodup)

structure CliPlan where
  ca : CertParams
  ee : CertParams
  alg : SigAlg
  /-- file names in the order they are created, relative to the output directory -/
  files : List Bytes
  deriving DecidableEq, Repr

/-- the whole tool: every failure happens before the first file is created -/
def cliRun (aws : Bool) (o : CliOptions) : Except Err CliPlan :=
  -- option parsing (bpaf): the `--san` values are classified first
  match classifySans o.sans with
  | .error e => .error e
  | .ok sans =>
  if namesCollide o.certFileName o.caFileName then .error (.other "same-file") else
  -- main.rs:18-23: the CA is configured (country must be a PrintableString) and built
  if !o.countryName.all printableByte then .error .invalidAsn1String else
  match cliKeyAlg aws o.alg with
  | none => .error .keyGenerationUnavailable
  | some alg =>
    .ok { ca := cliCaParams o.countryName o.organizationName
          ee := cliEeParams o.commonName sans o.clientAuth o.serverAuth
          alg := alg
          files := [o.certFileName ++ keyPemSuffix, o.certFileName ++ pemSuffix,
                    o.caFileName ++ keyPemSuffix, o.caFileName ++ pemSuffix] }

end Rcgen.Model
