import Rcgen.Model.Cli
/-
  The small public constructors and conversions that sit between what a caller types and the
  parameter values the writers consume — the glue around the modelled core:

    certificate.rs:127-146   `CertificateParams::new`  (names -> IP address | DNS name)
    certificate.rs:1164-1249 `mask!`, `CidrSubnet::from_addr_prefix`, `FromStr for CidrSubnet`
    certificate.rs:1251-1259 `date_time_ymd`
    certificate.rs:968-983   `CustomExtension::new_acme_identifier`
    lib.rs:756-800           `SerialNumber`: `From<u64>`, `from_slice`, `Display`

  with the std behaviour they rely on written down (`u8::from_str`, `str::split`,
  `u64::to_be_bytes`, `{:02x}`).  Text is UTF-8 bytes, as everywhere in the model.
-/
namespace Rcgen.Model

/-- `IpAddr::from_str`: an IPv4 dotted quad or an IPv6 literal -/
def parseIp (s : Bytes) : Option Bytes :=
  match parseIpv4 s with
  | some o => some o
  | none => parseIpv6 s

/-- core `u8::from_str` (radix 10): an optional single `+`, then one or more decimal digits
    (leading zeros allowed) whose value fits; an empty text, a lone sign, a `-` or any other
    character is an error -/
def parseU8 (s : Bytes) : Option Nat :=
  let digits := match s with
    | 43 :: rest => rest
    | _ => s
  if digits.isEmpty || !digits.all isDigit then none
  else
    -- checked multiply-and-add: the first intermediate value above 255 is an overflow error
    digits.foldl (fun acc b => match acc with
      | some a => let v := a * 10 + (b.toNat - 48); if v ≤ 255 then some v else none
      | none => none) (some 0)

/-- `CidrSubnet::from_addr_prefix` -/
def CidrSubnet.fromAddrPrefix (addr : Bytes) (pfx : Nat) : CidrSubnet :=
  if addr.length = 4 then .fromV4Prefix addr pfx else .fromV6Prefix addr pfx

/-- `impl FromStr for CidrSubnet`: `s.split('/')`, the first two pieces are the address and the
    prefix length; further pieces are not looked at; a text without `/` is an error -/
def cidrFromStr (s : Bytes) : Option CidrSubnet :=
  match splitOnByte 47 s with
  | a :: p :: _ =>
    match parseIp a, parseU8 p with
    | some addr, some n => some (.fromAddrPrefix addr n)
    | _, _ => none
  | _ => none

/-- `impl From<u64> for SerialNumber`: the eight big-endian octets, leading zeros included -/
def serialOfU64 (u : Nat) : Bytes := beBytesFixed 8 u

def hexLower (n : Nat) : UInt8 := UInt8.ofNat (if n < 10 then 48 + n else 87 + n)

/-- `impl Display for SerialNumber`: `{:02x}` of every octet, joined by `:` -/
def serialDisplay : Bytes → Bytes
  | [] => []
  | [b] => [hexLower (b.toNat / 16), hexLower (b.toNat % 16)]
  | b :: rest => hexLower (b.toNat / 16) :: hexLower (b.toNat % 16) :: 58 :: serialDisplay rest

/-- `date_time_ymd`: midnight UTC of a calendar date; `none` = the announced panic (a month
    outside 1..=12, a day the month does not have, a year outside time's −9999..=9999) -/
def dateTimeYmd (y : Int) (m d : Nat) : Option DateTime :=
  if -9999 ≤ y ∧ y ≤ 9999 ∧ 1 ≤ m ∧ m ≤ 12 ∧ 1 ≤ d ∧ d ≤ daysInMonth y m then
    some ⟨y, m, d, 0, 0, 0, 0, 0⟩
  else none

/-- `CertificateParams::new`: every name that `IpAddr::from_str` reads is an IP address, every
    other one a DNS name, which must be an IA5String; the rest are the defaults (whose key-identifier
    method is SHA-256 with a crypto back end and an empty pre-specified one without) -/
def paramsNew (crypto : Bool) (names : List Bytes) : Except Err CertParams :=
  match classifySans names with
  | .ok sans =>
    .ok { defaultParams with
          sans := sans
          keyIdMethod := if crypto then .sha256 else .preSpecified [] }
  | .error e => .error e

/-- id-pe-acmeIdentifier, RFC 8737 §3 -/
def acmeOid : List Nat := [1, 3, 6, 1, 5, 5, 7, 1, 31]

/-- `CustomExtension::new_acme_identifier`; `none` = the announced panic (digest not 32 octets) -/
def acmeIdentifier (digest : Bytes) : Option CustomExtension :=
  if digest.length = 32 then
    some { oid := acmeOid, critical := true, content := encode (.octets digest) }
  else none

end Rcgen.Model
