import Rcgen.Model.Cert
/-
  certificate.rs:441-463 (`write_extension_request_attribute`), 562-643
  (`serialize_request_with_attributes`).
-/
namespace Rcgen.Model

/-- certificate.rs:597-604 -/
def csrUnsupported (p : CertParams) : Bool :=
  p.serial.isSome || p.isCa != .noCa || p.nameConstraints.isSome || !p.crlDps.isEmpty || p.useAki

/-- certificate.rs:607-610 -/
def writeExtensionRequest (p : CertParams) : Bool :=
  !p.keyUsages.isEmpty || !p.sans.isEmpty || !p.ekus.isEmpty || !p.customExts.isEmpty

def requestedExtensions (p : CertParams) : List Asn1 :=
  keyUsageExt p.keyUsages ++ sanExt p ++ ekuExt p.ekus ++ p.customExts.map customExtNode

/-- certificate.rs:441-463 -/
def extensionRequestAttr (p : CertParams) : Asn1 :=
  .seq [.oid [1, 2, 840, 113549, 1, 9, 14], .set [.seq (requestedExtensions p)]]

/-- certificate.rs:628-633: caller attribute, values embedded as given -/
def attrNode (a : Attribute) : Asn1 := .seq [.oid a.oid, .raw a.values]

def csrAttributes (p : CertParams) (attrs : List Attribute) : List Asn1 :=
  (if writeExtensionRequest p then [extensionRequestAttr p] else []) ++ attrs.map attrNode

/-- certificationRequestInfo -/
def csrInfo (p : CertParams) (subject : PubKey) (attrs : List Attribute) : Asn1 :=
  .seq [ .intOfNat 0, writeDistinguishedName p.dn, spkiNode subject,
         Asn1.implicit 0 (.setOf (csrAttributes p attrs)) ]

/-- the checks after the `UnsupportedInCsr` test, in order -/
def csrInvalid (p : CertParams) (attrs : List Attribute) : Option Err :=
  firstErr ([checkName p.dn, checkExtensionOids p] ++ attrs.map (fun a => checkOid a.oid))

def csrExtRequestPanics (p : CertParams) : Bool :=
  p.sans.any sanPanics || p.ekus.any (fun e => !oidOk e.oid) ||
  p.customExts.any (fun e => !oidOk e.oid)

def csrPanics (p : CertParams) (attrs : List Attribute) : Bool :=
  dnPanics p.dn || (writeExtensionRequest p && csrExtRequestPanics p) ||
  attrs.any (fun a => !oidOk a.oid)

end Rcgen.Model
