import Rcgen.Base.Bytes
/-
  pem 3.0.5 `encode_config` as rcgen configures it (lib.rs `ENCODE_CONFIG`): standard base64
  with padding, lines of 64 characters, LF line ending outside Windows, no body line for empty
  contents; and the label each artefact kind is wrapped under.
-/
namespace Rcgen.Model

def b64Char (n : Nat) : UInt8 :=
  if n < 26 then UInt8.ofNat (65 + n)
  else if n < 52 then UInt8.ofNat (97 + (n - 26))
  else if n < 62 then UInt8.ofNat (48 + (n - 52))
  else if n = 62 then 43 else 47

/-- standard base64 with `=` padding -/
def b64Encode : Bytes → Bytes
  | a :: b :: c :: rest =>
    b64Char (a.toNat / 4) :: b64Char (a.toNat % 4 * 16 + b.toNat / 16) ::
    b64Char (b.toNat % 16 * 4 + c.toNat / 64) :: b64Char (c.toNat % 64) :: b64Encode rest
  | [a, b] =>
    [b64Char (a.toNat / 4), b64Char (a.toNat % 4 * 16 + b.toNat / 16), b64Char (b.toNat % 16 * 4), 61]
  | [a] => [b64Char (a.toNat / 4), b64Char (a.toNat % 4 * 16), 61, 61]
  | [] => []

/-- `slice::chunks(n)` (fuel = length of the input) -/
def chunksAux (n : Nat) : Nat → Bytes → List Bytes
  | 0, _ => []
  | _ + 1, [] => []
  | f + 1, b :: s => (b :: s).take n :: chunksAux n f ((b :: s).drop n)

def chunks (n : Nat) (s : Bytes) : List Bytes := chunksAux n s.length s

def asciiBytes (s : String) : Bytes := s.toUTF8.toList

def dashes : Bytes := [45, 45, 45, 45, 45]
def beginPrefix : Bytes := dashes ++ [66, 69, 71, 73, 78, 32]     -- "-----BEGIN "
def endPrefix : Bytes := dashes ++ [69, 78, 68, 32]               -- "-----END "

/-- `pem::encode_config(&Pem::new(label, der), ENCODE_CONFIG)` -/
def pemEncode (label der : Bytes) : Bytes :=
  beginPrefix ++ label ++ dashes ++ [10] ++
  (chunks 64 (b64Encode der)).flatMap (fun l => l ++ [10]) ++
  endPrefix ++ label ++ dashes ++ [10]

inductive PemKind | certificate | request | crl | privateKey | publicKey
  deriving DecidableEq, Repr

/-- certificate.rs:54, csr.rs:50, crl.rs:80, key_pair.rs:478, 521 -/
def PemKind.label : PemKind → Bytes
  | .certificate => [67,69,82,84,73,70,73,67,65,84,69]                       -- CERTIFICATE
  | .request => [67,69,82,84,73,70,73,67,65,84,69,32,82,69,81,85,69,83,84]   -- CERTIFICATE REQUEST
  | .crl => [88,53,48,57,32,67,82,76]                                        -- X509 CRL
  | .privateKey => [80,82,73,86,65,84,69,32,75,69,89]                        -- PRIVATE KEY
  | .publicKey => [80,85,66,76,73,67,32,75,69,89]                            -- PUBLIC KEY

/-- where the private key of a `KeyPair` is: in the stored document (a key rcgen generated or
    loaded), or behind a `RemoteKeyPair` (`serialized_der` is then empty) -/
inductive KeyHolder
  | held (doc : Bytes)
  | remote
  deriving DecidableEq, Repr

/-- key_pair.rs `serialize_der` (503-510); `none` = the announced panic
    ("Serializing a remote key pair is not supported") -/
def KeyHolder.serializeDer : KeyHolder → Option Bytes
  | .held doc => some doc
  | .remote => none

/-- key_pair.rs `serialize_pem` (537-541): the text around what `serialize_der` hands out, and so
    the same panic -/
def KeyHolder.serializePem (k : KeyHolder) : Option Bytes :=
  match k.serializeDer with
  | some contents => some (pemEncode PemKind.privateKey.label contents)
  | none => none

end Rcgen.Model
