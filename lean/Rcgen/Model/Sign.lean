import Rcgen.Model.Csr
import Rcgen.Model.Crl
/-
  key_pair.rs:411-461 (`sign_der`, `sign`), and the three public generation entry points as
  outcome-valued functions of (parameters, keys, signer).  The signer is a parameter:
  any function from the to-be-signed bytes to a signature or an error.
-/
namespace Rcgen.Model

abbrev Signer := Bytes → Except Err Bytes

/-- key_pair.rs:411-429: the TBS tree is encoded once; the same bytes are signed and embedded -/
def signDer (alg : SigAlg) (sign : Signer) (tbs : Asn1) : Except Err Asn1 :=
  match sign (encode tbs) with
  | .ok sig => .ok (.seq [tbs, algIdent alg, .bitStringOctets sig])
  | .error e => .error e

/-- build configuration: with the `crypto` feature off there is no automatic serial -/
structure Config where
  crypto : Bool := true

/-- `CertificateParams::signed_by` / `self_signed` / `CertificateSigningRequestParams::signed_by`
    (all funnel into `serialize_der_with_signer`) -/
def issueCert (cfg : Config) (H : Hashes) (p : CertParams) (subject : PubKey) (issuer : Issuer)
    (sign : Signer) : Out Asn1 :=
  match certInvalid p issuer with
  | some e => .err e
  | none =>
  if !cfg.crypto && p.serial.isNone then .err .missingSerialNumber
  else if certPanics p issuer then .panic "yasna/time assertion in serialize_der_with_signer"
  else match signDer issuer.key.alg sign (tbsCertificate H p subject issuer) with
    | .ok t => .ok t
    | .error e => .err e

/-- certificate.rs `Certificate`: what `signed_by` / `self_signed` hand back — the parameters,
    the subject's SubjectPublicKeyInfo, and the DER -/
structure Certificate where
  params : CertParams
  subjectPublicKeyInfo : Bytes
  der : Bytes
  deriving Repr

/-- `Certificate::key_identifier` -/
def Certificate.keyIdentifier (H : Hashes) (c : Certificate) : Bytes :=
  c.params.keyIdMethod.derive H c.subjectPublicKeyInfo

/-- `signed_by` / `self_signed` as they return: a `Certificate` value around the signed DER -/
def issueCertificate (cfg : Config) (H : Hashes) (p : CertParams) (subject : PubKey) (issuer : Issuer)
    (sign : Signer) : Out Certificate :=
  match issueCert cfg H p subject issuer sign with
  | .ok t => .ok { params := p, subjectPublicKeyInfo := spkiDer subject, der := encode t }
  | .err e => .err e
  | .panic s => .panic s

/-- `serialize_request_with_attributes` (signed with the subject key) -/
def serializeRequest (p : CertParams) (subject : PubKey) (attrs : List Attribute)
    (sign : Signer) : Out Asn1 :=
  if csrUnsupported p then .err .unsupportedInCsr
  else match csrInvalid p attrs with
  | some e => .err e
  | none =>
  if csrPanics p attrs then .panic "yasna assertion in serialize_request"
  else match signDer subject.alg sign (csrInfo p subject attrs) with
    | .ok t => .ok t
    | .error e => .err e

/-- `CertificateRevocationListParams::signed_by` -/
def issueCrl (H : Hashes) (p : CrlParams) (issuer : Issuer) (sign : Signer) : Out Asn1 :=
  if crlNextUpdateInvalid p then .err .invalidCrlNextUpdate
  else if crlIssuerNotSigner issuer then .err .issuerNotCrlSigner
  else match crlInvalid p issuer with
  | some e => .err e
  | none =>
  if crlPanics p issuer then .panic "yasna/time assertion in CRL serialize_der"
  else match signDer issuer.key.alg sign (tbsCertList H p issuer) with
    | .ok t => .ok t
    | .error e => .err e

end Rcgen.Model
