import Rcgen.Model.Types
import Rcgen.Base.Date
/-
  lib.rs:537-570 (`dt_strip_nanos`, `dt_to_generalized`, `write_dt_utc_or_generalized`)
  composed with yasna 0.5.2 `UTCTime/GeneralizedTime::from_datetime` (conversion to UTC inside
  the constructor, year assertions) and `to_bytes`, and time 0.3.41 `to_offset`.
-/
namespace Rcgen.Model

/-- seconds since the epoch of the instant `dt` denotes (whole seconds; nanoseconds dropped) -/
def DateTime.epochSeconds (dt : DateTime) : Int :=
  daysFromCivil dt.year dt.month dt.day * 86400
    + (dt.hour : Int) * 3600 + (dt.minute : Int) * 60 + (dt.second : Int) - dt.offset

structure UtcFields where
  year : Int
  month : Nat
  day : Nat
  hour : Nat
  minute : Nat
  second : Nat
  deriving DecidableEq, Repr

def utcOfEpoch (t : Int) : UtcFields :=
  let c := civilFromDays (t / 86400)
  let sod := (t % 86400).toNat
  { year := c.1, month := c.2.1, day := c.2.2, hour := sod / 3600, minute := sod / 60 % 60,
    second := sod % 60 }

/-- `to_offset(UtcOffset::UTC)` -/
def DateTime.toUtc (dt : DateTime) : UtcFields := utcOfEpoch dt.epochSeconds

/-- time 0.3.41 `to_offset` panics when the converted date leaves −9999..=9999 -/
def DateTime.toUtcInRange (dt : DateTime) : Bool :=
  let y := dt.toUtc.year
  decide ((-9999 : Int) ≤ y) && decide (y ≤ 9999)

def digit (n : Nat) : UInt8 := UInt8.ofNat (48 + n % 10)
def twoDigits (n : Nat) : Bytes := [digit (n / 10), digit n]

/-- yasna `UTCTime::to_bytes` -/
def utcTimeBytes (u : UtcFields) : Bytes :=
  twoDigits (u.year.toNat % 100) ++ twoDigits u.month ++ twoDigits u.day ++
  twoDigits u.hour ++ twoDigits u.minute ++ twoDigits u.second ++ [90]

/-- yasna `GeneralizedTime::to_bytes` for a value without fractional part -/
def genTimeBytes (u : UtcFields) : Bytes :=
  let y := u.year.toNat
  [digit (y / 1000), digit (y / 100), digit (y / 10), digit y] ++ twoDigits u.month ++
  twoDigits u.day ++ twoDigits u.hour ++ twoDigits u.minute ++ twoDigits u.second ++ [90]

/-- which year `write_dt_utc_or_generalized` looks at to choose the form: the value is first
    converted with `to_offset(UtcOffset::UTC)`, so it is the UTC year -/
def formYear (dt : DateTime) : Int := dt.toUtc.year

/-- lib.rs:555-570, as an ASN.1 node (total: see `timePanics` for the assertion outcome) -/
def writeTime (dt : DateTime) : Asn1 :=
  let u := dt.toUtc
  if 1950 ≤ formYear dt ∧ formYear dt < 2050 then .utcTime (utcTimeBytes u)
  else .genTime (genTimeBytes u)

/-- lib.rs:550-553 `dt_to_generalized` + `write_generalized_time` -/
def writeGeneralized (dt : DateTime) : Asn1 := .genTime (genTimeBytes dt.toUtc)

/-- the assertions on the path of `writeTime`: `to_offset` range, then the year assertion of
    the chosen constructor -/
def timePanics (dt : DateTime) : Bool :=
  if !dt.toUtcInRange then true
  else
    let y := dt.toUtc.year
    if 1950 ≤ formYear dt ∧ formYear dt < 2050 then !(1950 ≤ y && y < 2050)
    else !(0 ≤ y && y < 10000)

def genTimePanics (dt : DateTime) : Bool :=
  if !dt.toUtcInRange then true
  else
    let y := dt.toUtc.year
    !(0 ≤ y && y < 10000)

/-- lib.rs `check_time`: the instant must lie in the UTC years 0..=9999 -/
def timeEncodable (dt : DateTime) : Bool :=
  let t := dt.epochSeconds
  decide ((-62167219200 : Int) ≤ t) && decide (t ≤ 253402300799)

/-- instant comparison of `OffsetDateTime` (`Ord`): whole seconds, then nanoseconds -/
def DateTime.le (a b : DateTime) : Bool :=
  let sa := a.epochSeconds
  let sb := b.epochSeconds
  sa < sb || (sa == sb && a.nanos ≤ b.nanos)

end Rcgen.Model
