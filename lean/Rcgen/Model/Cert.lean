import Rcgen.Model.Name
import Rcgen.Model.Time
/-
  certificate.rs:441-534 (CSR/shared extension writers), 645-847 (`serialize_der_with_signer`),
  863-888 (`write_general_subtrees`), 1116-1168 (`CidrSubnet`), lib.rs:517-534 (`KeyIdMethod::
  derive`), 609-655 (extension + AKI writers), crl.rs:109-143 (distribution points),
  sign_algo.rs:212-275 (algorithm identifiers), key_pair.rs:773-779 (SPKI).
  Writers are pure functions to ASN.1 trees; the assertions of the DER writer they call are
  collected separately in `certPanics` (same order of evaluation).
-/
namespace Rcgen.Model

/-! ### algorithm identifiers (sign_algo.rs) -/

inductive AlgParams | none | null
  deriving DecidableEq, Repr

def SigAlg.sigOid : SigAlg → List Nat
  | .rsaSha256 => [1, 2, 840, 113549, 1, 1, 11]
  | .rsaSha384 => [1, 2, 840, 113549, 1, 1, 12]
  | .rsaSha512 => [1, 2, 840, 113549, 1, 1, 13]
  | .ecdsaP256 => [1, 2, 840, 10045, 4, 3, 2]
  | .ecdsaP384 => [1, 2, 840, 10045, 4, 3, 3]
  | .ecdsaP521 => [1, 2, 840, 10045, 4, 3, 4]
  | .ed25519 => [1, 3, 101, 112]

def SigAlg.params : SigAlg → AlgParams
  | .rsaSha256 | .rsaSha384 | .rsaSha512 => .null
  | _ => .none

/-- `oids_sign_alg` -/
def SigAlg.keyOids : SigAlg → List (List Nat)
  | .rsaSha256 | .rsaSha384 | .rsaSha512 => [[1, 2, 840, 113549, 1, 1, 1]]
  | .ecdsaP256 => [[1, 2, 840, 10045, 2, 1], [1, 2, 840, 10045, 3, 1, 7]]
  | .ecdsaP384 => [[1, 2, 840, 10045, 2, 1], [1, 3, 132, 0, 34]]
  | .ecdsaP521 => [[1, 2, 840, 10045, 2, 1], [1, 3, 132, 0, 35]]
  | .ed25519 => [[1, 3, 101, 112]]

def SigAlg.paramNodes (a : SigAlg) : List Asn1 :=
  match a.params with
  | .none => []
  | .null => [.null]

/-- `write_alg_ident` -/
def algIdent (a : SigAlg) : Asn1 := .seq (.oid a.sigOid :: a.paramNodes)

/-- `write_oids_sign_alg` -/
def spkiAlgIdent (a : SigAlg) : Asn1 := .seq (a.keyOids.map Asn1.oid ++ a.paramNodes)

/-- key_pair.rs:773-779 `serialize_public_key_der` -/
def spkiNode (k : PubKey) : Asn1 := .seq [spkiAlgIdent k.alg, .bitStringOctets k.raw]

def spkiDer (k : PubKey) : Bytes := encode (spkiNode k)

/-! ### key identifiers, serial -/

/-- lib.rs:517-534 -/
def KeyIdMethod.derive (H : Hashes) (m : KeyIdMethod) (spki : Bytes) : Bytes :=
  match m with
  | .sha256 => (H.sha256 spki).take 20
  | .sha384 => (H.sha384 spki).take 20
  | .sha512 => (H.sha512 spki).take 20
  | .preSpecified b => b

/-- certificate.rs:663-667: first 20 bytes of SHA-256 of the *raw* key, top bit cleared -/
def autoSerialBytes (H : Hashes) (subject : PubKey) : Bytes :=
  match (H.sha256 subject.raw).take 20 with
  | [] => []
  | b :: r => UInt8.ofNat (b.toNat &&& 127) :: r

/-! ### extensions -/

/-- lib.rs:609-634 `write_x509_extension` -/
def extNode (oid : List Nat) (critical : Bool) (value : Bytes) : Asn1 :=
  .seq (.oid oid :: ((if critical then [Asn1.bool true] else []) ++ [.octets value]))

def extOf (oid : List Nat) (critical : Bool) (value : Asn1) : Asn1 :=
  extNode oid critical (encode value)

/-- lib.rs:637-655 -/
def akiExt (keyId : Bytes) : Asn1 :=
  extOf [2, 5, 29, 35] false (.seq [.implicit 0 (.octets keyId)])

def keyUsageBits (kus : List KeyUsage) : Nat :=
  kus.foldl (fun acc k => acc ||| (32768 >>> k.index)) 0

/-- number of trailing zero bits of a 16-bit value (16 for 0) -/
def trailingZeros16 (v : Nat) : Nat :=
  match (List.range 16).find? (fun i => (v >>> i) % 2 == 1) with
  | some i => i
  | none => 16

/-- certificate.rs `write_key_usage`: the named bit list without its trailing zero bits:
    `bits = 16 - trailing_zeros`, the first `ceil(bits/8)` bytes of the big-endian value -/
def keyUsageValue (kus : List KeyUsage) : Asn1 :=
  let v := keyUsageBits kus
  let bits := 16 - trailingZeros16 v
  .bitString ([UInt8.ofNat (v / 256), UInt8.ofNat (v % 256)].take ((bits + 7) / 8)) bits

def keyUsageExt (kus : List KeyUsage) : List Asn1 :=
  if kus.isEmpty then [] else [extOf [2, 5, 29, 15] true (keyUsageValue kus)]

def Eku.oid : Eku → List Nat
  | .any => [2, 5, 29, 37, 0]
  | .serverAuth => [1, 3, 6, 1, 5, 5, 7, 3, 1]
  | .clientAuth => [1, 3, 6, 1, 5, 5, 7, 3, 2]
  | .codeSigning => [1, 3, 6, 1, 5, 5, 7, 3, 3]
  | .emailProtection => [1, 3, 6, 1, 5, 5, 7, 3, 4]
  | .timeStamping => [1, 3, 6, 1, 5, 5, 7, 3, 8]
  | .ocspSigning => [1, 3, 6, 1, 5, 5, 7, 3, 9]
  | .other o => o

def ekuExt (ekus : List Eku) : List Asn1 :=
  if ekus.isEmpty then [] else
    [extOf [2, 5, 29, 37] false (.seq (ekus.map (fun e => Asn1.oid e.oid)))]

/-- certificate.rs:509-530 -/
def sanNode : SanType → Asn1
  | .rfc822 b => .implicit 1 (.ia5 b)
  | .dns b => .implicit 2 (.ia5 b)
  | .uri b => .implicit 6 (.ia5 b)
  | .ip o => .implicit 7 (.octets o)
  | .otherName oid v => .implicit 0 (.seq [.oid oid, .explicit 0 (.utf8 v)])

/-- certificate.rs:498-534; critical iff the subject map is empty -/
def sanExt (p : CertParams) : List Asn1 :=
  if p.sans.isEmpty then [] else
    [extOf [2, 5, 29, 17] p.dn.entries.isEmpty (.seq (p.sans.map sanNode))]

def CidrSubnet.bytes : CidrSubnet → Bytes
  | .v4 a m => a ++ m
  | .v6 a m => a ++ m

/-- `mask!`: `!(MAX.checked_shr(pfx).unwrap_or(0))` as big-endian bytes of width `w` bits -/
def prefixMask (w pfx : Nat) : Bytes :=
  let maxv := 2 ^ w - 1
  let v := if pfx < w then maxv >>> pfx else 0
  beBytesFixed (w / 8) (maxv - v)

def CidrSubnet.fromV4Prefix (addr : Bytes) (pfx : Nat) : CidrSubnet := .v4 addr (prefixMask 32 pfx)
def CidrSubnet.fromV6Prefix (addr : Bytes) (pfx : Nat) : CidrSubnet := .v6 addr (prefixMask 128 pfx)

/-- certificate.rs:863-888: one GeneralSubtree -/
def subtreeNode : GeneralSubtree → Asn1
  | .rfc822 b => .seq [.implicit 1 (.ia5 b)]
  | .dns b => .seq [.implicit 2 (.ia5 b)]
  | .directoryName dn => .seq [.explicit 4 (writeDistinguishedName dn)]   -- Name is a CHOICE
  | .ip c => .seq [.implicit 7 (.octets c.bytes)]

def subtreesNode (tag : Nat) (ts : List GeneralSubtree) : Asn1 :=
  .implicit tag (.seq (ts.map subtreeNode))

def NameConstraints.isEmpty (nc : NameConstraints) : Bool :=
  nc.permitted.isEmpty && nc.excluded.isEmpty

def nameConstraintsExt (nc : Option NameConstraints) : List Asn1 :=
  match nc with
  | none => []
  | some nc =>
    if nc.isEmpty then [] else
      [extOf [2, 5, 29, 30] true
        (.seq ((if nc.permitted.isEmpty then [] else [subtreesNode 0 nc.permitted]) ++
               (if nc.excluded.isEmpty then [] else [subtreesNode 1 nc.excluded])))]

/-- crl.rs:118-143 `write_distribution_point_name_uris` -/
def dpNameUris (uris : List Bytes) : Asn1 :=
  .implicit 0 (.seq [.implicit 0 (.seq (uris.map (fun u => Asn1.implicit 6 (.ia5 u))))])

def crlDpsExt (dps : List CrlDistributionPoint) : List Asn1 :=
  if dps.isEmpty then [] else
    [extOf [2, 5, 29, 31] false (.seq (dps.map (fun dp => Asn1.seq [dpNameUris dp.uris])))]

def skiExt (H : Hashes) (p : CertParams) (subject : PubKey) : Asn1 :=
  extOf [2, 5, 29, 14] false (.octets (p.keyIdMethod.derive H (spkiDer subject)))

/-- certificate.rs:777-832 -/
def caExts (H : Hashes) (p : CertParams) (subject : PubKey) : List Asn1 :=
  match p.isCa with
  | .ca pl =>
    [skiExt H p subject,
     extOf [2, 5, 29, 19] true
       (.seq (.bool true :: (match pl with | some n => [Asn1.intOfNat n] | none => [])))]
  | .explicitNoCa =>
    [skiExt H p subject, extOf [2, 5, 29, 19] true (.seq [])]   -- cA DEFAULT FALSE left out
  | .noCa => []

def customExtNode (e : CustomExtension) : Asn1 := extNode e.oid e.critical e.content

/-- `self.name_constraints.iter().any(|c| !c.is_empty())` -/
def ncRequested : Option NameConstraints → Bool
  | some nc => !nc.isEmpty
  | none => false

/-- certificate.rs `should_write_exts` -/
def shouldWriteExts (p : CertParams) : Bool :=
  p.useAki || !p.sans.isEmpty || !p.keyUsages.isEmpty || !p.ekus.isEmpty ||
  ncRequested p.nameConstraints ||
  !p.crlDps.isEmpty || p.isCa != .noCa || !p.customExts.isEmpty

/-- certificate.rs:704-714 -/
def akiValue (H : Hashes) (issuer : Issuer) : Bytes :=
  match issuer.keyIdMethod with
  | .preSpecified b => b
  | m => m.derive H (spkiDer issuer.key)

def certExtensions (H : Hashes) (p : CertParams) (subject : PubKey) (issuer : Issuer) :
    List Asn1 :=
  (if p.useAki then [akiExt (akiValue H issuer)] else []) ++
  sanExt p ++ keyUsageExt p.keyUsages ++ ekuExt p.ekus ++
  nameConstraintsExt p.nameConstraints ++ crlDpsExt p.crlDps ++ caExts H p subject ++
  p.customExts.map customExtNode

def serialNode (H : Hashes) (p : CertParams) (subject : PubKey) : Asn1 :=
  match p.serial with
  | some s => .intOfBytes s
  | none => .intOfBytes (autoSerialBytes H subject)

/-- certificate.rs:650-843: the fields of TBSCertificate -/
def tbsCertificateFields (H : Hashes) (p : CertParams) (subject : PubKey) (issuer : Issuer) :
    List Asn1 :=
  [ .explicit 0 (.intOfNat 2),
    serialNode H p subject,
    algIdent issuer.key.alg,
    writeDistinguishedName issuer.dn,
    .seq [writeTime p.notBefore, writeTime p.notAfter],
    writeDistinguishedName p.dn,
    spkiNode subject ] ++
  (if shouldWriteExts p then [.explicit 3 (.seq (certExtensions H p subject issuer))] else [])

def tbsCertificate (H : Hashes) (p : CertParams) (subject : PubKey) (issuer : Issuer) : Asn1 :=
  .seq (tbsCertificateFields H p subject issuer)

/-- `self_signed`: the issuer view of the parameters themselves -/
def selfIssuer (p : CertParams) (key : PubKey) : Issuer :=
  { dn := p.dn, keyIdMethod := p.keyIdMethod, keyUsages := p.keyUsages, key := key }

/-! ### up-front validation (`check_time`, `check_name`, `check_oid`, `check_ia5`) and the
    assertion sites of the DER writer that remain behind it -/

/-- first error of a list of checks, in order -/
def firstErr : List (Option Err) → Option Err
  | [] => none
  | some e :: _ => some e
  | none :: rest => firstErr rest

def checkTime (dt : DateTime) : Option Err := if timeEncodable dt then none else some .time
def checkOid (o : List Nat) : Option Err := if oidOk o then none else some .invalidOid
def checkIa5 (b : Bytes) : Option Err := if isAscii b then none else some .invalidAsn1String

/-- lib.rs `check_name`: custom attribute types, in enumeration order -/
def checkName (dn : DistinguishedName) : Option Err :=
  firstErr (dn.iter.map (fun e => match e.1 with
    | .custom o => checkOid o
    | _ => none))

/-- certificate.rs `check_extension_oids` -/
def checkExtensionOids (p : CertParams) : Option Err :=
  firstErr (
    p.sans.map (fun s => match s with | .otherName o _ => checkOid o | _ => none) ++
    p.ekus.map (fun e => checkOid e.oid) ++
    p.customExts.map (fun e => checkOid e.oid))

def checkSubtree : GeneralSubtree → Option Err
  | .rfc822 b | .dns b => checkIa5 b
  | .directoryName dn => checkName dn
  | .ip _ => none

/-- the checks at the head of `serialize_der_with_signer`, in order -/
def certInvalid (p : CertParams) (issuer : Issuer) : Option Err :=
  firstErr (
    [checkTime p.notBefore, checkTime p.notAfter, checkName issuer.dn, checkName p.dn,
     checkExtensionOids p] ++
    (match p.nameConstraints with
     | some nc => (nc.permitted ++ nc.excluded).map checkSubtree
     | none => []) ++
    p.crlDps.flatMap (fun dp => dp.uris.map checkIa5))

/-- values of the validated string types carry their invariant (string.rs constructors, C13);
    a value violating it would reach yasna's IA5 assertion -/
def dnValuePanics : DnValue → Bool
  | .ia5 b => !isAscii b
  | _ => false

def dnPanics (dn : DistinguishedName) : Bool :=
  dn.iter.any (fun e => !oidOk e.1.oid || dnValuePanics e.2)

def sanPanics : SanType → Bool
  | .rfc822 b | .dns b | .uri b => !isAscii b
  | .ip _ => false
  | .otherName oid _ => !oidOk oid

def subtreePanics : GeneralSubtree → Bool
  | .rfc822 b | .dns b => !isAscii b
  | .directoryName dn => dnPanics dn
  | .ip _ => false

def ncPanics : Option NameConstraints → Bool
  | some nc => !nc.isEmpty && (nc.permitted.any subtreePanics || nc.excluded.any subtreePanics)
  | none => false

def extensionsPanic (p : CertParams) : Bool :=
  p.sans.any sanPanics ||
  p.ekus.any (fun e => !oidOk e.oid) ||
  ncPanics p.nameConstraints ||
  p.crlDps.any (fun dp => dp.uris.any (fun u => !isAscii u)) ||
  p.customExts.any (fun e => !oidOk e.oid)

/-- does writing the certificate hit an assertion of yasna/time? (evaluated only after
    `certInvalid` found nothing) -/
def certPanics (p : CertParams) (issuer : Issuer) : Bool :=
  dnPanics issuer.dn || timePanics p.notBefore || timePanics p.notAfter || dnPanics p.dn ||
  (shouldWriteExts p && extensionsPanic p)

end Rcgen.Model
