import Rcgen.Base.Der
/-
  Model of rcgen/src/string.rs: the five restricted string types.
  Text is `List Char` (a Lean `Char` is exactly a Unicode scalar value, as Rust's `char`);
  `utf8` is the byte view of a Rust `String`.
-/
namespace Rcgen.Model

def utf8 (s : List Char) : Bytes := s.flatMap String.utf8EncodeChar

/-- the byte match at string.rs:81-107 -/
def printableByte (b : UInt8) : Bool :=
  let n := b.toNat
  (65 ≤ n && n ≤ 90) || (97 ≤ n && n ≤ 122) || (48 ≤ n && n ≤ 57) ||
  n == 32 || n == 39 || n == 40 || n == 41 || n == 43 || n == 44 || n == 45 ||
  n == 46 || n == 47 || n == 58 || n == 61 || n == 63

/-- `PrintableString::try_from(String)`: stores the UTF-8 bytes -/
def printableCtor (s : List Char) : Option Bytes :=
  let b := utf8 s
  if b.all printableByte then some b else none

/-- `Ia5String::try_from(String)`: `is_ascii` -/
def ia5Ctor (s : List Char) : Option Bytes :=
  let b := utf8 s
  if b.all (fun x => x.toNat < 128) then some b else none

/-- `TeletexString::try_from(String)`: every byte in 0x20..=0x7f -/
def teletexCtor (s : List Char) : Option Bytes :=
  let b := utf8 s
  if b.all (fun x => 32 ≤ x.toNat && x.toNat ≤ 127) then some b else none

/-- `str::encode_utf16` -/
def utf16Units (c : Char) : List Nat :=
  let v := c.val.toNat
  if v < 65536 then [v]
  else
    let w := v - 65536
    [55296 + w / 1024, 56320 + w % 1024]

def u16be (n : Nat) : Bytes := [UInt8.ofNat (n / 256), UInt8.ofNat (n % 256)]
def u32be (n : Nat) : Bytes :=
  [UInt8.ofNat (n / 16777216), UInt8.ofNat (n / 65536 % 256), UInt8.ofNat (n / 256 % 256),
   UInt8.ofNat (n % 256)]

/-- `chunks_exact(2)` → u16 big-endian (a trailing odd byte is dropped, as `chunks_exact` does) -/
def unitsOfBytes : Bytes → List Nat
  | a :: b :: rest => (a.toNat * 256 + b.toNat) :: unitsOfBytes rest
  | _ => []

def isSurrogate (u : Nat) : Bool := 55296 ≤ u && u ≤ 57343
def isHigh (u : Nat) : Bool := 55296 ≤ u && u ≤ 56319
def isLow (u : Nat) : Bool := 56320 ≤ u && u ≤ 57343

/-- `char::decode_utf16`: `some v` for a decoded scalar value, `none` for an unpaired surrogate -/
def decodeUtf16 : List Nat → List (Option Nat)
  | [] => []
  | [u] => if !isSurrogate u then [some u] else [none]
  | u :: l :: rest' =>
    if !isSurrogate u then some u :: decodeUtf16 (l :: rest')
    else if isHigh u && isLow l then
      some (65536 + (u - 55296) * 1024 + (l - 56320)) :: decodeUtf16 rest'
    else none :: decodeUtf16 (l :: rest')

/-- the per-result test of string.rs:438-447: `Ok(c) if (c as u64) < u64::from(u16::MAX)` -/
def resultOk : Option Nat → Bool
  | some v => decide (v < 65535)
  | none => false

/-- `BmpString::from_utf16be` -/
def bmpFromUtf16be (b : Bytes) : Option Bytes :=
  if b.length % 2 ≠ 0 then none
  else if (decodeUtf16 (unitsOfBytes b)).all resultOk then some b
  else none

/-- `BmpString::try_from(&str)` -/
def bmpCtor (s : List Char) : Option Bytes :=
  bmpFromUtf16be ((s.flatMap utf16Units).flatMap u16be)

def wordsOfBytes : Bytes → List Nat
  | a :: b :: c :: d :: rest =>
    (a.toNat * 16777216 + b.toNat * 65536 + c.toNat * 256 + d.toNat) :: wordsOfBytes rest
  | _ => []

/-- `char::from_u32(v).is_some()` -/
def isScalar (v : Nat) : Bool := v < 55296 || (57343 < v && v < 1114112)

/-- `UniversalString::from_utf32be` -/
def universalFromUtf32be (b : Bytes) : Option Bytes :=
  if b.length % 4 ≠ 0 then none
  else if (wordsOfBytes b).all isScalar then some b
  else none

/-- `UniversalString::try_from(&str)` -/
def universalCtor (s : List Char) : Option Bytes :=
  universalFromUtf32be (s.flatMap (fun c => u32be c.val.toNat))

inductive StrKind | printable | ia5 | teletex | bmp | universal
  deriving DecidableEq, Repr

def ctor : StrKind → List Char → Option Bytes
  | .printable => printableCtor
  | .ia5 => ia5Ctor
  | .teletex => teletexCtor
  | .bmp => bmpCtor
  | .universal => universalCtor

end Rcgen.Model
