import Rcgen.Model.Types
/-
  lib.rs:302-350, 405-413 (`DistinguishedName`), lib.rs:572-606 (`write_distinguished_name`),
  certificate.rs:982-1008 (`DnType::to_oid`).
-/
namespace Rcgen.Model

namespace DistinguishedName

def new : DistinguishedName := { entries := [], order := [] }

/-- `HashMap::get` -/
def get (dn : DistinguishedName) (ty : DnType) : Option DnValue := dn.entries.lookup ty

def containsKey (dn : DistinguishedName) (ty : DnType) : Bool := (dn.get ty).isSome

/-- `HashMap::insert`: replace the value of an existing key, else add the pair (anywhere) -/
def mapInsert (es : List (DnType × DnValue)) (ty : DnType) (v : DnValue) :
    List (DnType × DnValue) :=
  match es with
  | [] => [(ty, v)]
  | (k, w) :: rest => if k = ty then (k, v) :: rest else (k, w) :: mapInsert rest ty v

/-- `HashMap::remove` -/
def mapRemove (es : List (DnType × DnValue)) (ty : DnType) : List (DnType × DnValue) :=
  es.filter (fun e => e.1 ≠ ty)

/-- lib.rs:338-343 -/
def push (dn : DistinguishedName) (ty : DnType) (v : DnValue) : DistinguishedName :=
  { entries := mapInsert dn.entries ty v
    order := if dn.containsKey ty then dn.order else dn.order ++ [ty] }

/-- lib.rs:321-327; returns the new name and whether something was removed -/
def remove (dn : DistinguishedName) (ty : DnType) : DistinguishedName × Bool :=
  if dn.containsKey ty then
    ({ entries := mapRemove dn.entries ty, order := dn.order.filter (fun t => ty ≠ t) }, true)
  else (dn, false)

/-- lib.rs:405-413: walk `order`; an order entry missing from the map *ends* the iteration
    (`Option::and_then` yields `None`, which a `for` loop takes as exhaustion) -/
def iterFrom (es : List (DnType × DnValue)) : List DnType → List (DnType × DnValue)
  | [] => []
  | ty :: rest =>
    match es.lookup ty with
    | some v => (ty, v) :: iterFrom es rest
    | none => []

def iter (dn : DistinguishedName) : List (DnType × DnValue) := iterFrom dn.entries dn.order

end DistinguishedName

def DnType.oid : DnType → List Nat
  | .country => [2, 5, 4, 6]
  | .locality => [2, 5, 4, 7]
  | .state => [2, 5, 4, 8]
  | .org => [2, 5, 4, 10]
  | .orgUnit => [2, 5, 4, 11]
  | .commonName => [2, 5, 4, 3]
  | .custom o => o

/-- certificate.rs:997-1007 `DnType::from_oid` -/
def DnType.fromOid (o : List Nat) : DnType :=
  if o = [2, 5, 4, 6] then .country
  else if o = [2, 5, 4, 7] then .locality
  else if o = [2, 5, 4, 8] then .state
  else if o = [2, 5, 4, 10] then .org
  else if o = [2, 5, 4, 11] then .orgUnit
  else if o = [2, 5, 4, 3] then .commonName
  else .custom o

/-- the value writer of lib.rs:578-601 -/
def DnValue.node : DnValue → Asn1
  | .bmp b => .bmp b
  | .ia5 b => .ia5 b
  | .printable b => .printable b
  | .teletex b => .teletex b
  | .universal b => .universalStr b
  | .utf8 b => .utf8 b

def rdnNode (e : DnType × DnValue) : Asn1 :=
  .set [.seq [.oid e.1.oid, e.2.node]]

/-- lib.rs:572-606 -/
def writeDistinguishedName (dn : DistinguishedName) : Asn1 :=
  .seq (dn.iter.map rdnNode)

/-- yasna's `write_printable_string` assertion (alphabet without `?`) -/
def yasnaPrintableByte (b : UInt8) : Bool :=
  let n := b.toNat
  n == 32 || (39 ≤ n && n ≤ 58 && n != 42) || n == 61 || (65 ≤ n && n ≤ 90) ||
  (97 ≤ n && n ≤ 122)

end Rcgen.Model
