import Rcgen.Model.Cert
/-
  crl.rs:187-303 (`signed_by`, `serialize_der`), 316-338 (issuing distribution point),
  364-414 (revoked entry).
-/
namespace Rcgen.Model

/-- crl.rs:316-338 -/
def idpValue (idp : CrlIdp) : Asn1 :=
  .seq (dpNameUris idp.uris ::
    (match idp.scope with
     | some .userCertsOnly => [Asn1.implicit 1 (.bool true)]
     | some .caCertsOnly => [Asn1.implicit 2 (.bool true)]
     | none => []))

/-- the invalidity-date value: always GeneralizedTime (`dt_to_generalized`) -/
def invalidityDateNode (dt : DateTime) : Asn1 := writeGeneralized dt

/-- crl.rs:364-414 -/
def revokedNode (r : RevokedCert) : Asn1 :=
  let hasReason := match r.reason with
    | some x => x != .unspecified
    | none => false
  .seq ([ Asn1.intOfBytes r.serial, writeTime r.revocationTime ] ++
    (if hasReason || r.invalidityDate.isSome then
      [Asn1.seq (
        (match r.reason with
         | some x => [extOf [2, 5, 29, 21] false (.enumOfNat x.code)]
         | none => []) ++
        (match r.invalidityDate with
         | some d => [extOf [2, 5, 29, 24] false (invalidityDateNode d)]
         | none => []))]
     else []))

def crlExtensions (H : Hashes) (p : CrlParams) (issuer : Issuer) : List Asn1 :=
  [ akiExt (p.keyIdMethod.derive H (spkiDer issuer.key)),
    extOf [2, 5, 29, 20] false (.intOfBytes p.crlNumber) ] ++
  (match p.idp with
   | some idp => [extOf [2, 5, 29, 28] true (idpValue idp)]
   | none => [])

/-- crl.rs:217-302: TBSCertList -/
def tbsCertList (H : Hashes) (p : CrlParams) (issuer : Issuer) : Asn1 :=
  .seq ([ Asn1.intOfNat 1, algIdent issuer.key.alg, writeDistinguishedName issuer.dn,
          writeTime p.thisUpdate, writeTime p.nextUpdate ] ++
        (if p.revoked.isEmpty then [] else [Asn1.seq (p.revoked.map revokedNode)]) ++
        [Asn1.explicit 0 (.seq (crlExtensions H p issuer))])

/-- crl.rs `signed_by`: `dt_strip_nanos(next_update) <= dt_strip_nanos(this_update)`: the
    instants truncated to whole seconds, which is what gets encoded -/
def crlNextUpdateInvalid (p : CrlParams) : Bool :=
  decide (p.nextUpdate.epochSeconds ≤ p.thisUpdate.epochSeconds)

/-- crl.rs:207-209 -/
def crlIssuerNotSigner (issuer : Issuer) : Bool :=
  !issuer.keyUsages.isEmpty && !issuer.keyUsages.contains .crlSign

/-- the checks at the head of the CRL's `serialize_der`, in order -/
def crlInvalid (p : CrlParams) (issuer : Issuer) : Option Err :=
  firstErr (
    [checkName issuer.dn] ++
    (match p.idp with | some idp => idp.uris.map checkIa5 | none => []) ++
    [checkTime p.thisUpdate, checkTime p.nextUpdate] ++
    p.revoked.flatMap (fun r => checkTime r.revocationTime ::
      (match r.invalidityDate with | some d => [checkTime d] | none => [])))

def revokedPanics (r : RevokedCert) : Bool :=
  timePanics r.revocationTime ||
  (match r.invalidityDate with | some d => genTimePanics d | none => false)

def idpPanics : Option CrlIdp → Bool
  | some idp => idp.uris.any (fun u => !isAscii u)
  | none => false

def crlPanics (p : CrlParams) (issuer : Issuer) : Bool :=
  dnPanics issuer.dn || timePanics p.thisUpdate || timePanics p.nextUpdate ||
  p.revoked.any revokedPanics || idpPanics p.idp

end Rcgen.Model
