import Rcgen.Model.CsrParse
import Rcgen.Model.Keys
/-
  key_pair.rs `SubjectPublicKeyInfo::from_der` (752-786) after the third-party parse: the
  algorithm is the first constant of the build whose SubjectPublicKeyInfo AlgorithmIdentifier is
  the parsed one, the key is the BIT STRING's octets; `from_pem` is the same on the PEM contents.
-/
namespace Rcgen.Model

def spkiFromDer (b : Backend) (der : Bytes) : Option PubKey :=
  match spkiParts der with
  | some (algDer, key) => (spkiAlgLookup b algDer).map (fun a => ⟨a, key⟩)
  | none => none

end Rcgen.Model
