import Rcgen.Model.Cert
/-
  key_pair.rs: the loader cascades (`TryFrom<&PrivateKeyDer>`, 558-633), the explicit-algorithm
  chains (`from_pkcs8_der_and_sign_algo` 231-285, `from_der_and_sign_algo` 326-389), the
  `PrivateKeyDer::try_from(&[u8])` classification of rustls-pki-types, and `SubjectPublicKeyInfo
  ::from_der`'s algorithm lookup — over an *abstract key document* (format, key type) and a
  parser-acceptance table for the two back ends.  The table is an assumption about ring /
  aws-lc-rs (validated by the correspondence, row by row); the cascade logic is rcgen's.
-/
namespace Rcgen.Model

/-- `rsa`: a modulus both back ends sign with (2048..=4096 bits); `rsaBig`: one above ring's
    4096-bit limit for private keys and within aws-lc-rs' 8192 -/
inductive KeyType | ed25519 | p256 | p384 | p521 | rsa | rsaBig
  deriving DecidableEq, Repr

inductive DocFormat | pkcs8v1 | pkcs8v2 | sec1 | pkcs1
  deriving DecidableEq, Repr

structure KeyDoc where
  fmt : DocFormat
  kty : KeyType
  deriving DecidableEq, Repr

inductive Backend | ring | aws
  deriving DecidableEq, Repr

/-- Cargo.toml `[features]`: the two features that bring a back end (`ring`, `aws_lc_rs`; each
    turns on `crypto`).  key_pair.rs / ring_like.rs / sign_algo.rs guard every back-end specific
    item either with `feature = "aws_lc_rs"` or with `all(feature = "ring", not(feature =
    "aws_lc_rs"))`, and what both need with `feature = "crypto"` -/
structure BackendFeatures where
  ring : Bool
  awsLcRs : Bool
  deriving DecidableEq, Repr

/-- `feature = "crypto"` -/
def BackendFeatures.crypto (f : BackendFeatures) : Bool := f.ring || f.awsLcRs

/-- which of the two guards holds: the back end the build uses (`ring_like.rs` 1-10) -/
def BackendFeatures.backend (f : BackendFeatures) : Option Backend :=
  if f.awsLcRs then some .aws          -- `cfg(feature = "aws_lc_rs")`
  else if f.ring then some .ring       -- `cfg(all(feature = "ring", not(feature = "aws_lc_rs")))`
  else none

/-- `PrivateKeyDer::try_from(&[u8])` -/
inductive Wrapper | pkcs8 | sec1 | pkcs1
  deriving DecidableEq, Repr

def KeyDoc.wrapper (d : KeyDoc) : Wrapper :=
  match d.fmt with
  | .pkcs8v1 | .pkcs8v2 => .pkcs8
  | .sec1 => .sec1
  | .pkcs1 => .pkcs1

/-- does a well-formed document exist in this format for this key type? -/
def KeyDoc.exists (d : KeyDoc) : Bool :=
  match d.fmt, d.kty with
  | .sec1, .p256 | .sec1, .p384 | .sec1, .p521 => true
  | .sec1, _ => false
  | .pkcs1, .rsa => true
  | .pkcs1, .rsaBig => true
  | .pkcs1, _ => false
  | .pkcs8v2, .ed25519 => true           -- RFC 8410 OneAsymmetricKey with the public key
  | .pkcs8v2, _ => false
  | .pkcs8v1, _ => true

/-- the back-end parsers rcgen calls -/
inductive Parser
  | edPkcs8                 -- Ed25519KeyPair::from_pkcs8_maybe_unchecked
  | ecPkcs8 (c : KeyType)   -- EcdsaKeyPair::from_pkcs8(alg, ..)
  | ecAny (c : KeyType)     -- aws-lc-rs EcdsaKeyPair::from_private_key_der(alg, ..)
  | rsaPkcs8                -- RsaKeyPair::from_pkcs8
  | rsaDer                  -- aws-lc-rs RsaKeyPair::from_der
  deriving DecidableEq, Repr

/-- acceptance table (assumption about the back ends) -/
def accepts (b : Backend) (p : Parser) (d : KeyDoc) : Bool :=
  match p with
  | .edPkcs8 => d.kty == .ed25519 && (d.fmt == .pkcs8v1 || d.fmt == .pkcs8v2)
  | .ecPkcs8 c =>
    d.kty == c && d.fmt == .pkcs8v1 && (c == .p256 || c == .p384 || (b == .aws && c == .p521))
  | .ecAny c =>
    b == .aws && d.kty == c && (d.fmt == .pkcs8v1 || d.fmt == .sec1) &&
    (c == .p256 || c == .p384 || c == .p521)
  | .rsaPkcs8 => (d.kty == .rsa || (b == .aws && d.kty == .rsaBig)) && d.fmt == .pkcs8v1
  | .rsaDer => b == .aws && (d.kty == .rsa || d.kty == .rsaBig) && (d.fmt == .pkcs1 || d.fmt == .pkcs8v1)

inductive LoadErr | couldNotParseKeyPair | keyRejected
  deriving DecidableEq, Repr

inductive LoadOut where
  | ok (alg : SigAlg)
  | err (e : LoadErr)
  | panic
  deriving DecidableEq, Repr

/-- key_pair.rs:558-633 `TryFrom<&PrivateKeyDer>` -/
def autodetect (b : Backend) (d : KeyDoc) : LoadOut :=
  match b with
  | .ring =>
    if d.wrapper != .pkcs8 then .err .couldNotParseKeyPair
    else if accepts b .edPkcs8 d then .ok .ed25519
    else if accepts b (.ecPkcs8 .p256) d then .ok .ecdsaP256
    else if accepts b (.ecPkcs8 .p384) d then .ok .ecdsaP384
    else if accepts b .rsaPkcs8 d then .ok .rsaSha256
    else .err .couldNotParseKeyPair
  | .aws =>
    let rsaFrom := if d.wrapper == .pkcs8 then Parser.rsaPkcs8 else Parser.rsaDer
    if accepts b .edPkcs8 d then .ok .ed25519
    else if accepts b (.ecAny .p256) d then .ok .ecdsaP256
    else if accepts b (.ecAny .p384) d then .ok .ecdsaP384
    else if accepts b (.ecAny .p521) d then .ok .ecdsaP521
    else if accepts b rsaFrom d then .ok .rsaSha256
    else .err .couldNotParseKeyPair

def tryParse (b : Backend) (p : Parser) (d : KeyDoc) (alg : SigAlg) : LoadOut :=
  if accepts b p d then .ok alg else .err .keyRejected

/-- the public algorithm constants of a back end (`PKCS_RSA_PSS_SHA256` is `pub(crate)`) -/
def publicAlgs (b : Backend) : List SigAlg :=
  [.rsaSha256, .rsaSha384, .rsaSha512, .ecdsaP256, .ecdsaP384] ++
  (if b == .aws then [.ecdsaP521] else []) ++ [.ed25519]

/-- key_pair.rs:231-285 `from_pkcs8_der_and_sign_algo` -/
def loadPkcs8With (b : Backend) (alg : SigAlg) (d : KeyDoc) : LoadOut :=
  match alg with
  | .ed25519 => tryParse b .edPkcs8 d alg
  | .ecdsaP256 => tryParse b (.ecPkcs8 .p256) d alg
  | .ecdsaP384 => tryParse b (.ecPkcs8 .p384) d alg
  | .rsaSha256 | .rsaSha384 | .rsaSha512 => tryParse b .rsaPkcs8 d alg
  | .ecdsaP521 => if b == .aws then tryParse b (.ecPkcs8 .p521) d alg else .panic

/-- key_pair.rs:326-389 `from_der_and_sign_algo` -/
def loadDerWith (b : Backend) (alg : SigAlg) (d : KeyDoc) : LoadOut :=
  match b with
  | .ring => if d.wrapper == .pkcs8 then loadPkcs8With b alg d else .err .couldNotParseKeyPair
  | .aws =>
    let rsaFrom := if d.wrapper == .pkcs8 then Parser.rsaPkcs8 else Parser.rsaDer
    match alg with
    | .ed25519 => tryParse b .edPkcs8 d alg
    | .ecdsaP256 => tryParse b (.ecAny .p256) d alg
    | .ecdsaP384 => tryParse b (.ecAny .p384) d alg
    | .ecdsaP521 => tryParse b (.ecAny .p521) d alg
    | .rsaSha256 | .rsaSha384 | .rsaSha512 => tryParse b rsaFrom d alg

/-- the key type an algorithm constant is for -/
def SigAlg.keyType : SigAlg → KeyType
  | .rsaSha256 | .rsaSha384 | .rsaSha512 => .rsa
  | .ecdsaP256 => .p256 | .ecdsaP384 => .p384 | .ecdsaP521 => .p521
  | .ed25519 => .ed25519

/-- does the algorithm constant go with keys of this type? (the RSA constants with RSA keys of
    either size class) -/
def SigAlg.fits (a : SigAlg) (k : KeyType) : Bool :=
  a.keyType == k || (a.keyType == .rsa && k == .rsaBig)

/-- the algorithm auto-detection assigns to a key type -/
def KeyType.defaultAlg : KeyType → SigAlg
  | .ed25519 => .ed25519 | .p256 => .ecdsaP256 | .p384 => .ecdsaP384 | .p521 => .ecdsaP521
  | .rsa | .rsaBig => .rsaSha256

/-- can this back end hold this key type at all? -/
def supports (b : Backend) (k : KeyType) : Bool := b == .aws || (k != .p521 && k != .rsaBig)

/-- what `generate_for` / rcgen's own export produce: the format of `serialize_der` -/
def exportFormat (b : Backend) (k : KeyType) : DocFormat :=
  match b, k with
  | _, .ed25519 => .pkcs8v2          -- both back ends attach the public key (RFC 5958 v2)
  | _, _ => .pkcs8v1

/-- the format of `serialize_der()` / `serialize_pem()` of a key *loaded* from document `d`
    (key_pair.rs `TryFrom<&PrivateKeyDer>` and `from_der_and_sign_algo`): a PKCS#8 input is kept
    as it is; aws-lc-rs also loads SEC1 and PKCS#1, and converts those to PKCS#8 (`to_pkcs8v1`) -/
def exportOfLoaded (b : Backend) (d : KeyDoc) : DocFormat :=
  match b with
  | .ring => d.fmt
  | .aws => if d.wrapper == .pkcs8 then d.fmt else .pkcs8v1

/-- sign_algo.rs `PartialEq`: compares (oids_sign_alg, oid_components) -/
def algEq (a b : SigAlg) : Bool := a.keyOids == b.keyOids && a.sigOid == b.sigOid

/-- sign_algo.rs `Hash`: hashes `oids_sign_alg` only -/
def algHashKey (a : SigAlg) : List (List Nat) := a.keyOids

/-- `SignatureAlgorithm::from_oid` over the constants of a back end -/
def algFromOid (b : Backend) (oid : List Nat) : Option SigAlg :=
  (publicAlgs b).find? (fun a => a.sigOid == oid)

/-- key_pair.rs `SubjectPublicKeyInfo::from_der`: first constant whose SubjectPublicKeyInfo
    AlgorithmIdentifier equals the parsed one -/
def spkiAlgLookup (b : Backend) (spkiAlgDer : Bytes) : Option SigAlg :=
  (publicAlgs b).find? (fun a => encode (spkiAlgIdent a) == spkiAlgDer)

end Rcgen.Model
