import Rcgen.Proofs.Strings
import Rcgen.Model.Cert
/-
  C13 — ASN.1 string types admit exactly their alphabet and encode losslessly.
  Model: Model/Strings.lean (string.rs constructors).  Spec: the alphabets of X.680 §41 as
  predicates on scalar values, and the transfer decodings (identity on ASCII, UTF-16BE, UTF-32BE).
-/
namespace Rcgen.Theorems.C13
open Rcgen Rcgen.Model

/-! ### the alphabets, as the property states them -/

/-- letters, digits, space and `'()+,-./:=?` -/
def alphaPrintable (c : Char) : Prop :=
  let v := c.val.toNat
  (65 ≤ v ∧ v ≤ 90) ∨ (97 ≤ v ∧ v ≤ 122) ∨ (48 ≤ v ∧ v ≤ 57) ∨ v = 32 ∨ v = 39 ∨ v = 40 ∨
  v = 41 ∨ v = 43 ∨ v = 44 ∨ v = 45 ∨ v = 46 ∨ v = 47 ∨ v = 58 ∨ v = 61 ∨ v = 63

/-- U+0000..U+007F -/
def alphaIa5 (c : Char) : Prop := c.val.toNat ≤ 127
/-- U+0020..U+007F -/
def alphaTeletex (c : Char) : Prop := 32 ≤ c.val.toNat ∧ c.val.toNat ≤ 127
/-- U+0000..U+FFFE (as text it cannot contain surrogates) -/
def alphaBmp (c : Char) : Prop := c.val.toNat ≤ 65534

/-- the code points of a text as single octets (transfer encoding of the three ASCII types) -/
def octetsOf (s : List Char) : Bytes := s.map (fun c => UInt8.ofNat c.val.toNat)

theorem ofNat_toNat_small (v : Nat) (h : v ≤ 127) : (UInt8.ofNat v).toNat = v := by
  simp [UInt8.toNat_ofNat']; omega

/-! ### PrintableString -/

theorem printableByte_ascii (b : UInt8) (h : printableByte b = true) : b.toNat < 128 := by
  unfold printableByte at h
  simp only [Bool.or_eq_true, Bool.and_eq_true, decide_eq_true_eq, beq_iff_eq] at h
  omega

theorem accepts_iff_alphabet_printable (s : List Char) :
    (printableCtor s).isSome ↔ ∀ c ∈ s, alphaPrintable c := by
  unfold printableCtor
  simp only
  split
  · rename_i h
    simp only [Option.isSome_some, true_iff]
    intro c hc
    obtain ⟨h1, h2⟩ := (all_utf8_iff printableByte printableByte_ascii s).1 h c hc
    unfold printableByte at h2
    rw [ofNat_toNat_small _ h1] at h2
    simp only [Bool.or_eq_true, Bool.and_eq_true, decide_eq_true_eq, beq_iff_eq] at h2
    unfold alphaPrintable
    simp only
    omega
  · rename_i h
    simp only [Option.isSome_none, Bool.false_eq_true, false_iff]
    intro hall
    apply h
    rw [all_utf8_iff printableByte printableByte_ascii s]
    intro c hc
    have := hall c hc
    unfold alphaPrintable at this
    simp only at this
    have h1 : c.val.toNat ≤ 127 := by omega
    refine ⟨h1, ?_⟩
    unfold printableByte
    rw [ofNat_toNat_small _ h1]
    simp only [Bool.or_eq_true, Bool.and_eq_true, decide_eq_true_eq, beq_iff_eq]
    omega

/-- what is stored is the text, one octet per character (so decoding returns the text) -/
theorem stored_printable (s : List Char) (b : Bytes) (h : printableCtor s = some b) :
    b = octetsOf s := by
  unfold printableCtor at h
  simp only at h
  split at h
  · rename_i hall
    have hs := (all_utf8_iff printableByte printableByte_ascii s).1 hall
    injection h with h
    rw [← h]
    exact utf8_of_ascii s (fun c hc => (hs c hc).1)
  · simp at h

/-! ### IA5String -/

theorem accepts_iff_alphabet_ia5 (s : List Char) :
    (ia5Ctor s).isSome ↔ ∀ c ∈ s, alphaIa5 c := by
  have key := all_utf8_iff (fun x => decide (x.toNat < 128)) (by intro b h; simpa using h) s
  unfold ia5Ctor
  simp only
  split
  · rename_i h
    simp only [Option.isSome_some, true_iff]
    intro c hc
    exact (key.1 h c hc).1
  · rename_i h
    simp only [Option.isSome_none, Bool.false_eq_true, false_iff]
    intro hall
    apply h
    rw [key]
    intro c hc
    have h1 : c.val.toNat ≤ 127 := hall c hc
    exact ⟨h1, by rw [ofNat_toNat_small _ h1]; simp only [decide_eq_true_eq]; omega⟩

theorem stored_ia5 (s : List Char) (b : Bytes) (h : ia5Ctor s = some b) : b = octetsOf s := by
  have key := all_utf8_iff (fun x => decide (x.toNat < 128)) (by intro b h; simpa using h) s
  unfold ia5Ctor at h
  simp only at h
  split at h
  · rename_i hall
    injection h with h
    rw [← h]
    exact utf8_of_ascii s (fun c hc => (key.1 hall c hc).1)
  · simp at h

/-! ### TeletexString -/

theorem accepts_iff_alphabet_teletex (s : List Char) :
    (teletexCtor s).isSome ↔ ∀ c ∈ s, alphaTeletex c := by
  have key := all_utf8_iff (fun x => decide (32 ≤ x.toNat) && decide (x.toNat ≤ 127))
    (by intro b h; simp at h; omega) s
  unfold teletexCtor
  simp only
  split
  · rename_i h
    simp only [Option.isSome_some, true_iff]
    intro c hc
    obtain ⟨h1, h2⟩ := key.1 h c hc
    rw [ofNat_toNat_small _ h1] at h2
    simp only [Bool.and_eq_true, decide_eq_true_eq] at h2
    exact ⟨h2.1, h1⟩
  · rename_i h
    simp only [Option.isSome_none, Bool.false_eq_true, false_iff]
    intro hall
    apply h
    rw [key]
    intro c hc
    obtain ⟨h0, h1⟩ := hall c hc
    exact ⟨h1, by rw [ofNat_toNat_small _ h1]; simp only [Bool.and_eq_true, decide_eq_true_eq]; omega⟩

theorem stored_teletex (s : List Char) (b : Bytes) (h : teletexCtor s = some b) :
    b = octetsOf s := by
  have key := all_utf8_iff (fun x => decide (32 ≤ x.toNat) && decide (x.toNat ≤ 127))
    (by intro b h; simp at h; omega) s
  unfold teletexCtor at h
  simp only at h
  split at h
  · rename_i hall
    injection h with h
    rw [← h]
    exact utf8_of_ascii s (fun c hc => (key.1 hall c hc).1)
  · simp at h

/-! ### UniversalString -/

theorem u32be_words (vs : List Nat) (h : ∀ v ∈ vs, v < 4294967296) :
    wordsOfBytes (vs.flatMap u32be) = vs := by
  induction vs with
  | nil => simp [wordsOfBytes]
  | cons v vs ih =>
    have hv := h v (by simp)
    simp only [List.flatMap_cons, u32be, List.cons_append, List.nil_append, wordsOfBytes]
    rw [ih (fun x hx => h x (by simp [hx]))]
    congr 1
    simp [UInt8.toNat_ofNat']
    omega

theorem u32be_length (vs : List Nat) : (vs.flatMap u32be).length = 4 * vs.length := by
  induction vs with
  | nil => simp
  | cons v vs ih => simp [List.flatMap_cons, u32be, ih]; omega

/-- every text is accepted, and the stored bytes are its UTF-32BE code units -/
theorem universal_accepts_all (s : List Char) :
    universalCtor s = some (s.flatMap (fun c => u32be c.val.toNat)) ∧
    wordsOfBytes (s.flatMap (fun c => u32be c.val.toNat)) = s.map (fun c => c.val.toNat) := by
  have hmap : s.flatMap (fun c => u32be c.val.toNat) = (s.map (fun c => c.val.toNat)).flatMap u32be := by
    simp [List.flatMap_map]
  have hlt : ∀ v ∈ s.map (fun c => c.val.toNat), v < 4294967296 := by
    intro v hv
    simp only [List.mem_map] at hv
    obtain ⟨c, _, rfl⟩ := hv
    have := char_valid c; omega
  have hw := u32be_words _ hlt
  refine ⟨?_, by rw [hmap, hw]⟩
  unfold universalCtor universalFromUtf32be
  rw [hmap, u32be_length, hw]
  have h4 : ¬ (4 * (s.map fun c => c.val.toNat).length % 4 ≠ 0) := by omega
  simp only [h4, if_false]
  have hall : (s.map fun c => c.val.toNat).all isScalar = true := by
    rw [List.all_eq_true]
    intro v hv
    simp only [List.mem_map] at hv
    obtain ⟨c, _, rfl⟩ := hv
    have := char_valid c
    unfold isScalar
    simp only [Bool.or_eq_true, Bool.and_eq_true, decide_eq_true_eq]
    omega
  rw [if_pos hall]

/-- the byte-level constructor accepts exactly the well-formed UTF-32BE strings -/
theorem universal_bytes_accepts_iff (b : Bytes) :
    (universalFromUtf32be b).isSome ↔ (b.length % 4 = 0 ∧ ∀ v ∈ wordsOfBytes b, isScalar v = true) := by
  unfold universalFromUtf32be
  by_cases h4 : b.length % 4 = 0
  · have : ¬ (b.length % 4 ≠ 0) := by omega
    simp only [this, if_false]
    by_cases hall : (wordsOfBytes b).all isScalar = true
    · simp only [hall, if_true, Option.isSome_some, true_iff]
      exact ⟨h4, List.all_eq_true.1 hall⟩
    · simp only [hall, Bool.false_eq_true, if_false, Option.isSome_none, false_iff]
      intro ⟨_, h⟩
      exact hall (List.all_eq_true.2 h)
  · simp [h4]

theorem universal_bytes_stored (b b' : Bytes) (h : universalFromUtf32be b = some b') : b' = b := by
  unfold universalFromUtf32be at h
  split at h
  · simp at h
  · split at h <;> simp_all

/-! ### BMPString -/

def unitOk (u : Nat) : Bool := !isSurrogate u && decide (u < 65535)

/-- `char::decode_utf16` yields only in-BMP, non-0xFFFF scalars iff every unit is a
    non-surrogate other than 0xFFFF: a surrogate, paired or not, always spoils the result -/
theorem decodeUtf16_all (us : List Nat) :
    (decodeUtf16 us).all resultOk = us.all unitOk := by
  fun_induction decodeUtf16 us with
  | case1 => rfl
  | case2 u h => simp [resultOk, unitOk, h]
  | case3 u h => simp [resultOk, unitOk, h]
  | case4 u l rest h ih =>
    simp only [List.all_cons, ih, resultOk, unitOk, h]
    simp
  | case5 u l rest h1 h2 ih =>
    have hs : isSurrogate u = true := by simpa using h1
    simp only [List.all_cons, resultOk, unitOk, hs]
    have : ¬ (65536 + (u - 55296) * 1024 + (l - 56320) < 65535) := by omega
    simp [this]
  | case6 u l rest h1 h2 ih =>
    have hs : isSurrogate u = true := by simpa using h1
    simp [List.all_cons, resultOk, unitOk, hs]

theorem bmp_bytes_accepts_iff (b : Bytes) :
    (bmpFromUtf16be b).isSome ↔
      (b.length % 2 = 0 ∧ ∀ u ∈ unitsOfBytes b, isSurrogate u = false ∧ u < 65535) := by
  unfold bmpFromUtf16be
  by_cases h2 : b.length % 2 = 0
  · have : ¬ (b.length % 2 ≠ 0) := by omega
    simp only [this, if_false]
    rw [decodeUtf16_all (unitsOfBytes b)]
    by_cases hall : (unitsOfBytes b).all unitOk = true
    · simp only [hall, if_true, Option.isSome_some, true_iff]
      refine ⟨h2, fun u hu => ?_⟩
      have := List.all_eq_true.1 hall u hu
      unfold unitOk at this
      simp only [Bool.and_eq_true, Bool.not_eq_true', decide_eq_true_eq] at this
      exact this
    · simp only [hall, Bool.false_eq_true, if_false, Option.isSome_none, false_iff]
      intro ⟨_, h⟩
      apply hall
      rw [List.all_eq_true]
      intro u hu
      unfold unitOk
      simp only [Bool.and_eq_true, Bool.not_eq_true', decide_eq_true_eq]
      exact h u hu
  · simp [h2]

theorem bmp_bytes_stored (b b' : Bytes) (h : bmpFromUtf16be b = some b') : b' = b := by
  unfold bmpFromUtf16be at h
  split at h
  · simp at h
  · split at h <;> simp_all

theorem u16be_units (us : List Nat) (h : ∀ u ∈ us, u < 65536) :
    unitsOfBytes (us.flatMap u16be) = us ∧ (us.flatMap u16be).length = 2 * us.length := by
  induction us with
  | nil => simp [unitsOfBytes]
  | cons u us ih =>
    have hu := h u (by simp)
    obtain ⟨i1, i2⟩ := ih (fun x hx => h x (by simp [hx]))
    simp only [List.flatMap_cons, u16be, List.cons_append, List.nil_append, unitsOfBytes, i1,
      List.length_cons, i2]
    refine ⟨?_, by omega⟩
    congr 1
    simp [UInt8.toNat_ofNat']
    omega

theorem utf16Units_lt (c : Char) : ∀ u ∈ utf16Units c, u < 65536 := by
  have hv := char_valid c
  unfold utf16Units
  simp only
  split
  · intro u hu
    simp only [List.mem_cons, List.mem_nil_iff, or_false] at hu
    omega
  · intro u hu
    simp only [List.mem_cons, List.mem_nil_iff, or_false] at hu
    generalize c.val.toNat = v at *
    rcases hu with h | h <;> omega

theorem utf16Units_ok (c : Char) : (utf16Units c).all unitOk = true ↔ alphaBmp c := by
  have hv := char_valid c
  unfold utf16Units alphaBmp
  simp only
  split
  · rename_i h
    simp only [List.all_cons, List.all_nil, Bool.and_true, unitOk, isSurrogate, Bool.and_eq_true,
      Bool.not_eq_true', decide_eq_true_eq, Bool.and_eq_false_iff, decide_eq_false_iff_not]
    omega
  · rename_i h
    simp only [List.all_cons, List.all_nil, Bool.and_true, unitOk, isSurrogate, Bool.and_eq_true,
      Bool.not_eq_true', decide_eq_true_eq, Bool.and_eq_false_iff, decide_eq_false_iff_not]
    omega

/-- a text is accepted iff every character is in U+0000..U+FFFE; what is stored is its UTF-16BE
    code units, which (no surrogates occurring) are the scalar values themselves -/
theorem accepts_iff_alphabet_bmp (s : List Char) :
    (bmpCtor s).isSome ↔ ∀ c ∈ s, alphaBmp c := by
  unfold bmpCtor
  rw [bmp_bytes_accepts_iff]
  have hlt : ∀ u ∈ s.flatMap utf16Units, u < 65536 := by
    intro u hu
    simp only [List.mem_flatMap] at hu
    obtain ⟨c, _, hc⟩ := hu
    exact utf16Units_lt c u hc
  obtain ⟨e1, e2⟩ := u16be_units _ hlt
  rw [e1, e2]
  constructor
  · intro ⟨_, h⟩ c hc
    rw [← utf16Units_ok, List.all_eq_true]
    intro u hu
    have := h u (List.mem_flatMap.2 ⟨c, hc, hu⟩)
    unfold unitOk
    simp only [Bool.and_eq_true, Bool.not_eq_true', decide_eq_true_eq]
    exact this
  · intro h
    refine ⟨by omega, fun u hu => ?_⟩
    simp only [List.mem_flatMap] at hu
    obtain ⟨c, hc, hu⟩ := hu
    have := List.all_eq_true.1 ((utf16Units_ok c).2 (h c hc)) u hu
    unfold unitOk at this
    simp only [Bool.and_eq_true, Bool.not_eq_true', decide_eq_true_eq] at this
    exact this

theorem stored_bmp (s : List Char) (b : Bytes) (h : bmpCtor s = some b) (hs : ∀ c ∈ s, alphaBmp c) :
    unitsOfBytes b = s.map (fun c => c.val.toNat) := by
  unfold bmpCtor at h
  have hb := bmp_bytes_stored _ _ h
  subst hb
  have hunits : s.flatMap utf16Units = s.map (fun c => c.val.toNat) := by
    clear h
    induction s with
    | nil => rfl
    | cons c s ih =>
      have hc : c.val.toNat < 65536 := by have := hs c (by simp); unfold alphaBmp at this; omega
      simp only [List.flatMap_cons, List.map_cons, utf16Units, hc, if_true, List.cons_append,
        List.nil_append]
      rw [ih (fun x hx => hs x (by simp [hx]))]
  have hlt : ∀ u ∈ s.flatMap utf16Units, u < 65536 := by
    intro u hu
    simp only [List.mem_flatMap] at hu
    obtain ⟨c, _, hc⟩ := hu
    exact utf16Units_lt c u hc
  rw [(u16be_units _ hlt).1, hunits]

/-! ### every accepted value can be placed in a name and is written under its own tag -/

/-- the name writer emits each kind under its universal tag with the stored bytes as content
    (19 PrintableString, 22 IA5String, 20 TeletexString, 30 BMPString, 28 UniversalString) -/
theorem accepted_serialises_tag (b : Bytes) :
    (DnValue.printable b).node = .prim 0 19 b ∧ (DnValue.ia5 b).node = .prim 0 22 b ∧
    (DnValue.teletex b).node = .prim 0 20 b ∧ (DnValue.bmp b).node = .prim 0 30 b ∧
    (DnValue.universal b).node = .prim 0 28 b := ⟨rfl, rfl, rfl, rfl, rfl⟩

/-- no accepted value can trip the DER writer: the only string assertion left on the name
    path is IA5 = ASCII, which the IA5 constructor guarantees -/
theorem accepted_serialises_no_panic (s : List Char) (b : Bytes) :
    (printableCtor s = some b → dnValuePanics (.printable b) = false) ∧
    (ia5Ctor s = some b → dnValuePanics (.ia5 b) = false) ∧
    (teletexCtor s = some b → dnValuePanics (.teletex b) = false) ∧
    (bmpCtor s = some b → dnValuePanics (.bmp b) = false) ∧
    (universalCtor s = some b → dnValuePanics (.universal b) = false) := by
  refine ⟨fun _ => rfl, ?_, fun _ => rfl, fun _ => rfl, fun _ => rfl⟩
  intro h
  unfold ia5Ctor at h
  simp only at h
  split at h
  · rename_i hall
    injection h with h
    subst h
    simp only [dnValuePanics, isAscii, Bool.not_eq_false']
    exact hall
  · simp at h

/-! non-vacuity -/
example : (bmpCtor ['\uFFFE']).isSome := by decide
example : ¬ (bmpCtor ['\uFFFF']).isSome := by decide
example : ¬ (bmpFromUtf16be [0xD8, 0x00, 0xDC, 0x00]).isSome := by decide
example : (printableCtor ['a', '?']).isSome := by decide
example : ¬ (printableCtor ['a', '*']).isSome := by decide
example : ia5Ctor ['\x7f'] = some [127] := by decide
example : universalCtor ['😀'] = some [0, 1, 246, 0] := by decide

end Rcgen.Theorems.C13
