import Rcgen.Proofs.Time
import Rcgen.Model.Crl
import Rcgen.Spec.Props
import Rcgen.Model.Ctor
/-
  C09 — every time value is encoded as the same instant in the form RFC 5280 requires.
  Model: `writeTime` (Model/Time.lean) = lib.rs `write_dt_utc_or_generalized` composed with
  yasna's `from_datetime`/`to_bytes` and time's `to_offset`.
  Spec: `Spec.asTime` (RFC 5280 §4.1.2.5 parsers) and `Spec.timeFieldOk`.
-/
namespace Rcgen.Theorems.C09
open Rcgen Rcgen.Model Rcgen.Spec

/-- the UTC year of the instant a date-time denotes -/
def utcYear (dt : DateTime) : Int := (civilFromDays (dt.epochSeconds / 86400)).1

/-- **same instant, right form**: for every date-time whose UTC year lies in 0..=9999 — any
    offset, any sub-second part — the encoded value decodes to the instant truncated to whole
    seconds, as UTCTime exactly when the UTC year is in 1950..=2049, GeneralizedTime otherwise -/
theorem time_same_instant (dt : DateTime) (hy : 0 ≤ utcYear dt ∧ utcYear dt ≤ 9999) :
    asTime (writeTime dt) =
      some (if 1950 ≤ utcYear dt ∧ utcYear dt ≤ 2049 then TimeForm.utc else TimeForm.generalized,
            dt.epochSeconds) := by
  have hsmall := utcOfEpoch_small dt.epochSeconds
  have hep := epochOfFields_utcOfEpoch dt.epochSeconds
  simp only at hep
  have hyear : (utcOfEpoch dt.epochSeconds).year = utcYear dt := rfl
  unfold writeTime formYear DateTime.toUtc
  rw [hyear]
  by_cases hform : 1950 ≤ utcYear dt ∧ utcYear dt ≤ 2049
  · have h' : 1950 ≤ utcYear dt ∧ utcYear dt < 2050 := ⟨hform.1, by omega⟩
    simp only [h', hform, and_self, if_true, Asn1.utcTime, asTime]
    rw [parse_utcTimeBytes _ (by rw [hyear]; exact hform) hsmall.1 hsmall.2.1 hsmall.2.2.1
      hsmall.2.2.2.1 hsmall.2.2.2.2, hep]
    rfl
  · have h' : ¬ (1950 ≤ utcYear dt ∧ utcYear dt < 2050) := fun h => hform ⟨h.1, by omega⟩
    simp only [h', hform, if_false, Asn1.genTime, asTime]
    rw [parse_genTimeBytes _ (by rw [hyear]; exact hy) hsmall.1 hsmall.2.1 hsmall.2.2.1
      hsmall.2.2.2.1 hsmall.2.2.2.2, hep]
    rfl

/-- the executable clause the driver evaluates on real certificates holds of the model -/
theorem time_field_ok (dt : DateTime) (hy : 0 ≤ utcYear dt ∧ utcYear dt ≤ 9999) :
    ∃ got, asTime (writeTime dt) = some got ∧ timeFieldOk dt got = true := by
  refine ⟨_, time_same_instant dt hy, ?_⟩
  unfold timeFieldOk
  simp only [utcYear]
  by_cases hform : 1950 ≤ (civilFromDays (dt.epochSeconds / 86400)).1 ∧
      (civilFromDays (dt.epochSeconds / 86400)).1 ≤ 2049 <;> simp [hform]

/-- **form**: UTCTime exactly when the UTC year is in 1950..=2049; the text is 13 resp. 15
    octets ending in `Z` (seconds present, no fraction: `YYMMDDHHMMSSZ` / `YYYYMMDDHHMMSSZ`) -/
theorem time_form (dt : DateTime) :
    (∃ c, writeTime dt = .prim 0 23 c ∧ c.length = 13 ∧ c[12]? = some 90 ∧
        (1950 ≤ utcYear dt ∧ utcYear dt ≤ 2049)) ∨
    (∃ c, writeTime dt = .prim 0 24 c ∧ c.length = 15 ∧ c[14]? = some 90 ∧
        ¬ (1950 ≤ utcYear dt ∧ utcYear dt ≤ 2049)) := by
  have hyear : (utcOfEpoch dt.epochSeconds).year = utcYear dt := rfl
  unfold writeTime formYear DateTime.toUtc
  rw [hyear]
  by_cases hform : 1950 ≤ utcYear dt ∧ utcYear dt < 2050
  · left
    rw [if_pos hform]
    exact ⟨_, rfl, (utcTimeBytes_shape _).1, (utcTimeBytes_shape _).2, hform.1, by omega⟩
  · right
    rw [if_neg hform]
    exact ⟨_, rfl, (genTimeBytes_shape _).1, (genTimeBytes_shape _).2, fun h => hform ⟨h.1, by omega⟩⟩

/-- **offset independence**: two date-times denoting the same instant up to the sub-second
    part (whatever their offsets and nanoseconds) are encoded identically -/
theorem time_offset_independent (a b : DateTime) (h : a.epochSeconds = b.epochSeconds) :
    writeTime a = writeTime b := by
  unfold writeTime formYear DateTime.toUtc
  rw [h]

/-- the always-GeneralizedTime writer (CRL invalidity date) denotes the same instant too -/
theorem generalized_same_instant (dt : DateTime) (hy : 0 ≤ utcYear dt ∧ utcYear dt ≤ 9999) :
    asTime (writeGeneralized dt) = some (TimeForm.generalized, dt.epochSeconds) := by
  have hsmall := utcOfEpoch_small dt.epochSeconds
  have hep := epochOfFields_utcOfEpoch dt.epochSeconds
  simp only at hep
  have hyear : (utcOfEpoch dt.epochSeconds).year = utcYear dt := rfl
  unfold writeGeneralized DateTime.toUtc
  simp only [Asn1.genTime, asTime]
  rw [parse_genTimeBytes _ (by rw [hyear]; exact hy) hsmall.1 hsmall.2.1 hsmall.2.2.1
    hsmall.2.2.2.1 hsmall.2.2.2.2, hep]
  rfl

/-- `check_time` admits exactly the date-times whose UTC year lies in 0..=9999 -/
theorem encodable_iff_utc_year (dt : DateTime) :
    timeEncodable dt = true ↔ (0 ≤ utcYear dt ∧ utcYear dt ≤ 9999) := by
  unfold timeEncodable utcYear
  rw [← civil_year_bounds]
  simp only [Bool.and_eq_true, decide_eq_true_eq]
  constructor <;> (intro h; constructor <;> omega)

/-- all five time-carrying fields are written with these two writers -/
theorem fields_use_writeTime (H : Hashes) (p : CertParams) (s : PubKey) (i : Issuer) :
    (tbsCertificateFields H p s i)[4]? = some (.seq [writeTime p.notBefore, writeTime p.notAfter]) := by
  simp [tbsCertificateFields]

theorem crl_fields_use_writeTime (H : Hashes) (p : CrlParams) (i : Issuer) :
    ∃ rest, tbsCertList H p i =
      .seq (Asn1.intOfNat 1 :: algIdent i.key.alg :: writeDistinguishedName i.dn ::
            writeTime p.thisUpdate :: writeTime p.nextUpdate :: rest) ∧
    ∀ r ∈ p.revoked, ∃ tail, revokedNode r =
      .seq (Asn1.intOfBytes r.serial :: writeTime r.revocationTime :: tail) := by
  refine ⟨_, ⟨rfl, ?_⟩⟩
  intro r _
  exact ⟨_, rfl⟩

/-! non-vacuity: 2049-12-31 23:30 at −01:00 is a 2050 instant: GeneralizedTime; and its
    hypothesis (UTC year within 0..=9999) is satisfiable -/
example : encode (writeTime ⟨2049, 12, 31, 23, 30, 0, 5, -3600⟩) =
    [24, 15, 50,48,53,48,48,49,48,49,48,48,51,48,48,48,90] := by decide
example : 0 ≤ utcYear ⟨2049, 12, 31, 23, 30, 0, 5, -3600⟩ ∧
    utcYear ⟨2049, 12, 31, 23, 30, 0, 5, -3600⟩ ≤ 9999 := by decide

/-- **`date_time_ymd`**: for every calendar date that exists (month 1..=12, a day the month has,
    year within time's −9999..=9999) the value handed to the writers is midnight UTC of that
    day — offset zero, no sub-second part, the instant `86400 · daysFromCivil y m d`; for every
    other triple it is the announced panic -/
theorem ymd_is_midnight_utc (y : Int) (m d : Nat) :
    (∀ dt, dateTimeYmd y m d = some dt →
      dt.epochSeconds = daysFromCivil y m d * 86400 ∧ dt.offset = 0 ∧ dt.nanos = 0 ∧
      dt.year = y ∧ dt.month = m ∧ dt.day = d) ∧
    ((dateTimeYmd y m d).isSome ↔
      (-9999 ≤ y ∧ y ≤ 9999 ∧ 1 ≤ m ∧ m ≤ 12 ∧ 1 ≤ d ∧ d ≤ daysInMonth y m)) := by
  constructor
  · intro dt h
    unfold dateTimeYmd at h
    split at h
    · cases h; simp [DateTime.epochSeconds]
    · cases h
  · unfold dateTimeYmd
    split <;> simp_all

/-- … and it is *written* as that day: converted to UTC it is `y-m-d 00:00:00`, so for a year
    within 0..=9999 the encoded time is `[YY]YYMMDD000000Z` — UTCTime exactly for 1950..=2049 -/
theorem ymd_written_as_that_day (y : Int) (m d : Nat) (dt : DateTime)
    (h : dateTimeYmd y m d = some dt) :
    dt.toUtc = ⟨y, m, d, 0, 0, 0⟩ ∧
    writeTime dt = (if 1950 ≤ y ∧ y < 2050 then .utcTime (utcTimeBytes ⟨y, m, d, 0, 0, 0⟩)
                    else .genTime (genTimeBytes ⟨y, m, d, 0, 0, 0⟩)) := by
  have hv := ((ymd_is_midnight_utc y m d).2).1 (by rw [h]; rfl)
  obtain ⟨he, _, _, _, _, _⟩ := (ymd_is_midnight_utc y m d).1 dt h
  have hu : dt.toUtc = ⟨y, m, d, 0, 0, 0⟩ := by
    unfold DateTime.toUtc utcOfEpoch
    rw [he]
    have h1 : daysFromCivil y m d * 86400 / 86400 = daysFromCivil y m d := by omega
    have h2 : (daysFromCivil y m d * 86400 % 86400).toNat = 0 := by omega
    rw [h1, h2, civil_days_roundtrip y m d hv.2.2.1 hv.2.2.2.1 hv.2.2.2.2.1 hv.2.2.2.2.2]
  refine ⟨hu, ?_⟩
  unfold writeTime formYear
  rw [hu]

example : (dateTimeYmd 2049 12 31).map (fun dt => encode (writeTime dt)) =
    some [23, 13, 52,57,49,50,51,49,48,48,48,48,48,48,90] := by decide +kernel

example : (dateTimeYmd 2000 2 29).map DateTime.epochSeconds = some 951782400 := by decide
example : dateTimeYmd 1900 2 29 = none := by decide

end Rcgen.Theorems.C09
