import Rcgen.Theorems.C04
import Rcgen.Theorems.C07
import Rcgen.Theorems.C08
/-
  C04, second part: DER is the encoding of a value *of the type*.  Generic TLV canonicity
  (definite minimal lengths, sorted sets, …) does not notice a field written in another shape
  than its ASN.1 definition gives it — an implicitly tagged primitive in the constructed form,
  say.  The clause `C04:follows-the-asn1-schema` of the check asks that the typed RFC 5280 /
  2986 reader reads the artefact; for the model this is a corollary of the decode theorems.
-/
namespace Rcgen.Theorems.C04
open Rcgen Rcgen.Model Rcgen.Spec

/-- every to-be-signed certificate rcgen returns is read by the typed RFC 5280 reader -/
theorem cert_follows_schema (i : CertInputs)
    (hinv : certInvalid i.p i.issuer = none) (hnp : certPanics i.p i.issuer = false)
    (hc : ∀ e ∈ i.p.customExts, e.oid ∉ C02.interpretedOids)
    (hsize : (encode (tbsCertificate i.H i.p i.subject i.issuer)).length < 256 ^ 126) :
    (decodeTbsCert (encode (tbsCertificate i.H i.p i.subject i.issuer))).isSome = true := by
  rw [C02.cert_decodes_to_record i hinv hnp hc hsize]; rfl

/-- every certificationRequestInfo is read by the typed RFC 2986 reader -/
theorem csr_follows_schema (i : Spec.CsrInputs) (vals : Attribute → Asn1)
    (hv : C07.ValuesAreDer i.attrs vals) (hnp : csrPanics i.p i.attrs = false)
    (hsize : (encode (csrInfo i.p i.subject i.attrs)).length < 256 ^ 126) :
    (Spec.decodeCsrInfo (encode (csrInfo i.p i.subject i.attrs))).isSome = true := by
  rw [C07.csr_decodes_to_record i vals hv hnp hsize]; rfl

/-- every TBSCertList is read by the typed RFC 5280 reader -/
theorem crl_follows_schema (i : Spec.CrlInputs)
    (hinv : crlInvalid i.p i.issuer = none) (hnp : crlPanics i.p i.issuer = false)
    (hsize : (encode (tbsCertList i.H i.p i.issuer)).length < 256 ^ 126) :
    (Spec.decodeTbsCrl (encode (tbsCertList i.H i.p i.issuer))).isSome = true := by
  rw [C08.crl_decodes_to_record i hinv hnp hsize]; rfl

end Rcgen.Theorems.C04
