import Rcgen.Proofs.Name
/-
  C20 — a distinguished name is an insertion-ordered map under any edit history.
  Property theorems only (helper lemmas live in Proofs/Name.lean).
  Model: `DistinguishedName.push/remove/get/iter` (Model/Name.lean) mirror lib.rs:313-350,
  405-413; the HashMap is an association list in *arbitrary* order.
  Spec: `absPush` / `absRemove` on a plain insertion-ordered association list.
-/
namespace Rcgen.Theorems.C20
open Rcgen Rcgen.Model Rcgen.Model.DistinguishedName

/-! ### the invariant holds initially and is preserved by every operation -/

theorem inv_new : Inv DistinguishedName.new :=
  ⟨by simp [DistinguishedName.new], by simp [DistinguishedName.new, keys],
   by simp [DistinguishedName.new, keys]⟩

theorem inv_push (dn : DistinguishedName) (h : Inv dn) (ty : DnType) (v : DnValue) :
    Inv (dn.push ty v) := by
  obtain ⟨h1, h2, h3⟩ := h
  by_cases hm : ty ∈ keys dn.entries
  · have hc : dn.containsKey ty = true := containsKey_true dn ty hm
    refine ⟨by simp [push, hc, h1], ?_, ?_⟩
    · simp [push, keys_mapInsert_of_mem _ _ _ hm, h2]
    · intro t; simp [push, hc, keys_mapInsert_of_mem _ _ _ hm, h3]
  · have hc : dn.containsKey ty = false := containsKey_false dn ty hm
    have hno : ty ∉ dn.order := fun hx => hm ((h3 ty).1 hx)
    refine ⟨?_, ?_, ?_⟩
    · simp only [push, hc]
      exact List.nodup_append.2 ⟨h1, by simp, by intro a ha b hb; simp at hb; subst hb; exact fun e => hno (e ▸ ha)⟩
    · simp only [push, keys_mapInsert_of_not_mem _ _ _ hm]
      exact List.nodup_append.2 ⟨h2, by simp, by intro a ha b hb; simp at hb; subst hb; exact fun e => hm (e ▸ ha)⟩
    · intro t
      simp only [push, hc, Bool.false_eq_true, if_false, keys_mapInsert_of_not_mem _ _ _ hm,
        List.mem_append]
      rw [h3 t]

theorem inv_remove (dn : DistinguishedName) (h : Inv dn) (ty : DnType) :
    Inv (dn.remove ty).1 := by
  obtain ⟨h1, h2, h3⟩ := h
  unfold remove
  split
  · refine ⟨h1.filter _, ?_, ?_⟩
    · simp only [keys_mapRemove]; exact h2.filter _
    · intro t
      simp only [keys_mapRemove, List.mem_filter, h3 t]
      constructor <;> (intro ⟨a, b⟩; refine ⟨a, ?_⟩; simp at b ⊢; exact fun e => b e.symm)
  · exact ⟨h1, h2, h3⟩

/-! ### refinement: each concrete step is the abstract step on the enumeration -/

theorem refines_push (dn : DistinguishedName) (h : Inv dn) (ty : DnType) (v : DnValue) :
    (dn.push ty v).iter = absPush dn.iter ty v := by
  obtain ⟨h1, h2, h3⟩ := h
  have hall : ∀ t ∈ dn.order, t ∈ keys dn.entries := fun t ht => (h3 t).1 ht
  -- general statement over any nodup order whose keys are all present
  have keyA : ∀ (order : List DnType), order.Nodup → (∀ t ∈ order, t ∈ keys dn.entries) →
      ty ∈ order →
      iterFrom (mapInsert dn.entries ty v) order = absPush (iterFrom dn.entries order) ty v := by
    intro order
    induction order with
    | nil => intro _ _ hm; simp at hm
    | cons k rest ih =>
      intro hnd hin hm
      have hsome := (lookup_isSome_iff dn.entries k).2 (hin k (by simp))
      cases hlk : dn.entries.lookup k with
      | none => simp [hlk] at hsome
      | some w =>
        by_cases hk : k = ty
        · subst hk
          have hnr : k ∉ rest := (List.nodup_cons.1 hnd).1
          have hcongr : iterFrom (mapInsert dn.entries k v) rest = iterFrom dn.entries rest :=
            iterFrom_congr _ _ _ (fun t ht => by
              rw [lookup_mapInsert]; have : t ≠ k := fun e => hnr (e ▸ ht); simp [this])
          simp [iterFrom, lookup_mapInsert, hlk, absPush, hcongr]
        · have hmr : ty ∈ rest := by
            simp only [List.mem_cons] at hm
            rcases hm with e | e
            · exact absurd e.symm hk
            · exact e
          have := ih (List.nodup_cons.1 hnd).2 (fun t ht => hin t (by simp [ht])) hmr
          simp [iterFrom, lookup_mapInsert, hk, hlk, absPush, this]
  by_cases hm : ty ∈ keys dn.entries
  · have hc : dn.containsKey ty = true := containsKey_true dn ty hm
    simp only [iter, push, hc, if_true]
    exact keyA dn.order h1 hall ((h3 ty).2 hm)
  · have hc : dn.containsKey ty = false := containsKey_false dn ty hm
    have hno : ty ∉ dn.order := fun hx => hm ((h3 ty).1 hx)
    simp only [iter, push, hc]
    -- appended key: the old part is unchanged, the new key comes last
    have happ : ∀ (order : List DnType), (∀ t ∈ order, t ∈ keys dn.entries) → ty ∉ order →
        iterFrom (mapInsert dn.entries ty v) (order ++ [ty]) =
          absPush (iterFrom dn.entries order) ty v := by
      intro order
      induction order with
      | nil => intro _ _; simp [iterFrom, lookup_mapInsert, absPush]
      | cons k rest ih =>
        intro hin hn
        have hsome := (lookup_isSome_iff dn.entries k).2 (hin k (by simp))
        cases hlk : dn.entries.lookup k with
        | none => simp [hlk] at hsome
        | some w =>
          have hk : k ≠ ty := fun e => hn (by simp [e])
          have := ih (fun t ht => hin t (by simp [ht])) (fun e => hn (by simp [e]))
          simp [iterFrom, lookup_mapInsert, hk, hlk, absPush, this]
    simpa using happ dn.order hall hno

theorem refines_remove (dn : DistinguishedName) (h : Inv dn) (ty : DnType) :
    ((dn.remove ty).1.iter, (dn.remove ty).2) = absRemove dn.iter ty := by
  obtain ⟨h1, h2, h3⟩ := h
  have hall : ∀ t ∈ dn.order, t ∈ keys dn.entries := fun t ht => (h3 t).1 ht
  have hkeys : keys dn.iter = dn.order := keys_iterFrom _ _ hall
  have hany : (dn.iter.any fun e => decide (e.1 = ty)) = decide (ty ∈ dn.order) := by
    rw [← hkeys]
    simp only [keys]
    induction dn.iter with
    | nil => simp
    | cons e es ih =>
      simp only [List.any_cons, ih, List.map_cons, List.mem_cons]
      by_cases he : e.1 = ty
      · simp [he]
      · have he' : ¬ ty = e.1 := fun x => he x.symm
        by_cases hm : ty ∈ List.map Prod.fst es <;> simp [he, he', hm]
  have hfilter : ∀ (order : List DnType), (∀ t ∈ order, t ∈ keys dn.entries) →
      iterFrom (mapRemove dn.entries ty) (order.filter fun t => decide (ty ≠ t)) =
        (iterFrom dn.entries order).filter (fun e => decide (e.1 ≠ ty)) := by
    intro order
    induction order with
    | nil => intro _; simp [iterFrom]
    | cons k rest ih =>
      intro hin
      have hsome := (lookup_isSome_iff dn.entries k).2 (hin k (by simp))
      have ih' := ih (fun t ht => hin t (by simp [ht]))
      simp only [ne_eq, decide_not] at ih'
      cases hlk : dn.entries.lookup k with
      | none => simp [hlk] at hsome
      | some w =>
        by_cases hk : k = ty
        · subst hk; simp [iterFrom, hlk, List.filter_cons, ih']
        · have hk' : ty ≠ k := fun e => hk e.symm
          simp [iterFrom, hlk, List.filter_cons, hk, hk', lookup_mapRemove, ih']
  unfold remove absRemove
  by_cases hm : ty ∈ keys dn.entries
  · have hc : dn.containsKey ty = true := containsKey_true dn ty hm
    simp only [hc, if_true, iter]
    rw [hfilter dn.order hall]
    have : ty ∈ dn.order := (h3 ty).2 hm
    simp only [iter] at hany
    simp [hany, this]
  · have hc : dn.containsKey ty = false := containsKey_false dn ty hm
    have hno : ty ∉ dn.order := fun hx => hm ((h3 ty).1 hx)
    simp only [hc, iter] at hany ⊢
    simp only [Bool.false_eq_true, if_false, hany, hno, decide_false, Prod.mk.injEq, and_true]
    -- nothing to filter: ty is not a key of the enumeration
    have hk : ty ∉ keys (iterFrom dn.entries dn.order) := by rw [show keys (iterFrom dn.entries dn.order) = dn.order from hkeys]; exact hno
    symm
    apply List.filter_eq_self.2
    intro e he
    simp only [ne_eq, decide_eq_true_eq]
    intro heq
    exact hk (by simp only [keys, List.mem_map]; exact ⟨e, he, heq⟩)

/-! ### every history -/

inductive Op where
  | push (ty : DnType) (v : DnValue)
  | remove (ty : DnType)

/-- concrete step with its observable output (`remove` reports whether it removed) -/
def step (dn : DistinguishedName) : Op → DistinguishedName × Option Bool
  | .push ty v => (dn.push ty v, none)
  | .remove ty => ((dn.remove ty).1, some (dn.remove ty).2)

def absStep (a : Entries) : Op → Entries × Option Bool
  | .push ty v => (absPush a ty v, none)
  | .remove ty => ((absRemove a ty).1, some (absRemove a ty).2)

def run (ops : List Op) : DistinguishedName × List (Option Bool) :=
  ops.foldl (fun (s : DistinguishedName × List (Option Bool)) op =>
    ((step s.1 op).1, s.2 ++ [(step s.1 op).2])) (DistinguishedName.new, [])

def absRun (ops : List Op) : Entries × List (Option Bool) :=
  ops.foldl (fun (s : Entries × List (Option Bool)) op =>
    ((absStep s.1 op).1, s.2 ++ [(absStep s.1 op).2])) ([], [])

theorem step_refines (dn : DistinguishedName) (h : Inv dn) (op : Op) :
    Inv (step dn op).1 ∧ (step dn op).1.iter = (absStep dn.iter op).1 ∧
      (step dn op).2 = (absStep dn.iter op).2 := by
  cases op with
  | push ty v => exact ⟨inv_push dn h ty v, refines_push dn h ty v, rfl⟩
  | remove ty =>
    have := refines_remove dn h ty
    have e1 := congrArg Prod.fst this
    have e2 := congrArg Prod.snd this
    simp only at e1 e2
    exact ⟨inv_remove dn h ty, e1, by simp [step, absStep, e2]⟩

/-- after *any* finite sequence of insertions and removals the container satisfies its
    invariant, enumerates exactly what the abstract insertion-ordered map holds, and has
    produced the same outputs -/
theorem history_refines (ops : List Op) :
    Inv (run ops).1 ∧ (run ops).1.iter = (absRun ops).1 ∧ (run ops).2 = (absRun ops).2 := by
  suffices H : ∀ (ops : List Op) (s : DistinguishedName × List (Option Bool))
      (a : Entries × List (Option Bool)), Inv s.1 → s.1.iter = a.1 → s.2 = a.2 →
      let r := ops.foldl (fun (s : DistinguishedName × List (Option Bool)) op =>
        ((step s.1 op).1, s.2 ++ [(step s.1 op).2])) s
      let ra := ops.foldl (fun (s : Entries × List (Option Bool)) op =>
        ((absStep s.1 op).1, s.2 ++ [(absStep s.1 op).2])) a
      Inv r.1 ∧ r.1.iter = ra.1 ∧ r.2 = ra.2 by
    exact H ops _ _ inv_new (by simp [DistinguishedName.new, iter, iterFrom]) rfl
  intro ops
  induction ops with
  | nil => intro s a h1 h2 h3; exact ⟨h1, h2, h3⟩
  | cons op rest ih =>
    intro s a h1 h2 h3
    obtain ⟨i1, i2, i3⟩ := step_refines s.1 h1 op
    simp only [List.foldl_cons]
    apply ih
    · exact i1
    · simp only; rw [i2, h2]
    · simp only; rw [i3, h3, h2]

/-! ### the property's own words, as corollaries about any state satisfying the invariant -/

/-- enumeration lists exactly the types present, each once, in the order vector's order -/
theorem iter_is_insertion_order (dn : DistinguishedName) (h : Inv dn) :
    keys dn.iter = dn.order ∧ (keys dn.iter).Nodup ∧ ∀ t, t ∈ keys dn.iter ↔ (dn.get t).isSome := by
  have hall : ∀ t ∈ dn.order, t ∈ keys dn.entries := fun t ht => (h.same t).1 ht
  have hk : keys dn.iter = dn.order := keys_iterFrom _ _ hall
  refine ⟨hk, hk ▸ h.orderNodup, ?_⟩
  intro t
  rw [hk, h.same t, DistinguishedName.get, lookup_isSome_iff]

/-- lookup agrees with enumeration -/
theorem get_agrees_with_iter (dn : DistinguishedName) (h : Inv dn) (t : DnType) :
    dn.get t = dn.iter.lookup t := by
  have hall : ∀ t ∈ dn.order, t ∈ keys dn.entries := fun t ht => (h.same t).1 ht
  by_cases ht : t ∈ dn.order
  · exact (lookup_iterFrom _ _ t ht hall).symm
  · have h1 : t ∉ keys dn.entries := fun hx => ht ((h.same t).2 hx)
    have h2 : t ∉ keys dn.iter := by
      rw [show keys dn.iter = dn.order from keys_iterFrom _ _ hall]; exact ht
    have e1 : dn.get t = none := by
      cases hg : dn.get t with
      | none => rfl
      | some v => exact absurd ((lookup_isSome_iff dn.entries t).1 (by simp [DistinguishedName.get] at hg; simp [hg])) h1
    have e2 : dn.iter.lookup t = none := by
      cases hg : dn.iter.lookup t with
      | none => rfl
      | some v => exact absurd ((lookup_isSome_iff dn.iter t).1 (by simp [hg])) h2
    rw [e1, e2]

/-- Rust's derived `==` on the struct: the two maps are equal *as maps* and the order vectors
    are equal.  Under the invariant this is exactly equality of the enumerations. -/
def dnEq (a b : DistinguishedName) : Prop := (∀ t, a.get t = b.get t) ∧ a.order = b.order

theorem eq_iff_same_enumeration (a b : DistinguishedName) (ha : Inv a) (hb : Inv b) :
    dnEq a b ↔ a.iter = b.iter := by
  constructor
  · intro ⟨hg, ho⟩
    simp only [iter, ho]
    exact iterFrom_congr _ _ _ (fun t _ => hg t)
  · intro hi
    refine ⟨fun t => ?_, ?_⟩
    · rw [get_agrees_with_iter a ha, get_agrees_with_iter b hb, hi]
    · rw [← (iter_is_insertion_order a ha).1, ← (iter_is_insertion_order b hb).1, hi]

/-- the encoded name lists the attributes in exactly the enumeration's order -/
theorem encoded_name_follows_iter (dn : DistinguishedName) :
    writeDistinguishedName dn = .seq (dn.iter.map rdnNode) := rfl

/-! ### what the abstract map does (so the spec can be read in the property's words) -/

theorem abs_push_lookup (a : Entries) (ty : DnType) (v : DnValue) (t : DnType) :
    (absPush a ty v).lookup t = if t = ty then some v else a.lookup t := by
  induction a with
  | nil => simp [absPush, lookup_cons_ite]
  | cons e es ih =>
    obtain ⟨k, w⟩ := e
    simp only [absPush]
    split
    · rename_i hk; subst hk; simp only [lookup_cons_ite]; by_cases h : t = k <;> simp [h]
    · rename_i hk
      simp only [lookup_cons_ite, ih]
      by_cases h : t = k
      · subst h; simp [hk]
      · simp [h]

theorem abs_push_keys (a : Entries) (ty : DnType) (v : DnValue) :
    keys (absPush a ty v) = if ty ∈ keys a then keys a else keys a ++ [ty] := by
  induction a with
  | nil => simp [absPush, keys]
  | cons e es ih =>
    obtain ⟨k, w⟩ := e
    simp only [absPush]
    split
    · rename_i hk; subst hk; simp [keys]
    · rename_i hk
      have hk' : ¬ ty = k := fun e => hk e.symm
      simp only [keys, List.map_cons, List.mem_cons, hk', false_or] at ih ⊢
      rw [ih]; split <;> rename_i hx <;> simp [hx]

/-! ### non-vacuity: concrete reachable states -/

example : (run [.push .commonName (.utf8 [97]), .push .org (.utf8 [98]),
                .remove .commonName, .push .commonName (.utf8 [99])]).1.iter
    = [(.org, .utf8 [98]), (.commonName, .utf8 [99])] := by decide

example : Inv (DistinguishedName.new.push .commonName (.utf8 [97])) :=
  inv_push _ inv_new _ _

end Rcgen.Theorems.C20
