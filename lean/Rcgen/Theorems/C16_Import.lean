import Rcgen.Theorems.C16
import Rcgen.Theorems.C03_Chain
/-
  C16, the crypto-less build's certificate import (`from_ca_cert_der` with `x509-parser` on and
  no back end): same namespace as C16.lean; it needs the import lemma of C03_Chain.
-/
namespace Rcgen.Theorems.C16
open Rcgen Rcgen.Model Rcgen.Spec

/-- **the crypto-less build never makes up a key identifier**: with no back end there is no
    digest, so what `from_ca_cert_der` hands out there always carries the identifier the
    certificate itself states (a pre-specified one: the first subjectKeyIdentifier it has) -/
theorem cryptoless_import_keeps_stated_key_identifier (c : TbsCert) (p : CertParams)
    (h : importCa false c = .ok p) :
    ∃ b rest, c.exts.filterMap skiOf = b :: rest ∧ p.keyIdMethod = .preSpecified b := by
  have hk := (C03.importCa_name_and_kid false c p h).2
  unfold importKid at hk
  split at hk
  · rename_i b rest hb
    simp only [Except.ok.injEq] at hk
    exact ⟨b, rest, hb, hk.symm⟩
  · simp at hk

/-- ... and a certificate that states none is refused there, whatever else it contains (the
    crypto builds fall back to SHA-256 of the key instead) -/
theorem cryptoless_import_refuses_without_key_identifier (c : TbsCert)
    (h : c.exts.filterMap skiOf = []) : ∀ p, importCa false c ≠ .ok p := by
  intro p hp
  obtain ⟨b, rest, hb, _⟩ := cryptoless_import_keeps_stated_key_identifier c p hp
  rw [h] at hb
  cases hb

/-- the two kinds of build differ on nothing else: where the crypto-less import succeeds, the
    import with a back end returns the very same parameters -/
theorem cryptoless_import_agrees_with_crypto_import (c : TbsCert) (p : CertParams)
    (h : importCa false c = .ok p) : importCa true c = .ok p := by
  obtain ⟨b, rest, hb, _⟩ := cryptoless_import_keeps_stated_key_identifier c p h
  have hkid : importKid true c = importKid false c := by
    unfold importKid; rw [hb]
  unfold importCa at h ⊢
  rw [hkid]
  exact h

/-! non-vacuity: a CA certificate with a subject key identifier is imported without a back end;
    the same certificate without its extensions is not -/
example : ∃ p', importCa false C03.exCa = .ok p' ∧ p'.keyIdMethod = .preSpecified [1,2,3] :=
  ⟨_, rfl, rfl⟩
example : (match importCa false { C03.exCa with exts := [] } with
    | .error .unsupportedSignatureAlgorithm => true
    | _ => false) = true := by rfl

end Rcgen.Theorems.C16
