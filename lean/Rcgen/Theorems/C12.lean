import Rcgen.Spec.Validate
import Rcgen.Theorems.C02
import Rcgen.Proofs.Validate
/-
  C12 — constraints placed in certificates are enforced by independent validators.
  Spec: `Spec.validate` (RFC 5280 §6.1 restricted to what rcgen emits) and
  `Spec.expectedVerdict` (the verdict the parameters imply).  The check evaluates both on every
  generated chain and compares them with OpenSSL and webpki.  Proved here: the two matching
  rules mean what the parameters say — a CIDR prefix constrains exactly the leading bits, a DNS
  subtree exactly the label-aligned suffixes — and the per-certificate clauses of the validator
  read from the *requested content* what `expectedVerdict` reads from the parameters.
  That OpenSSL / webpki agree with `Spec.validate` is observed on the enumerated product.
-/
namespace Rcgen.Theorems.C12
open Rcgen Rcgen.Model Rcgen.Spec

/-- mask octet with `k` leading one bits -/
def maskByte (k : Nat) : Nat := 256 - 2 ^ (8 - k)

theorem and_maskByte_table :
    (List.range 256).all (fun x => (List.range 9).all (fun k =>
      x &&& maskByte k == x - x % 2 ^ (8 - k))) = true := by decide +kernel

theorem and_maskByte (x : Nat) (hx : x < 256) (k : Nat) (hk : k ≤ 8) :
    x &&& maskByte k = x - x % 2 ^ (8 - k) := by
  have h := and_maskByte_table
  rw [List.all_eq_true] at h
  have h1 := h x (List.mem_range.2 hx)
  rw [List.all_eq_true] at h1
  have h2 := h1 k (List.mem_range.2 (by omega))
  simpa using h2

/-- **one octet under a prefix mask**: equal under the mask iff the leading `k` bits agree -/
theorem octet_match_iff (a b : UInt8) (k : Nat) (hk : k ≤ 8) :
    ((a.toNat &&& maskByte k) = (b.toNat &&& maskByte k)) ↔
      a.toNat / 2 ^ (8 - k) = b.toNat / 2 ^ (8 - k) := by
  rw [and_maskByte _ a.toNat_lt k hk, and_maskByte _ b.toNat_lt k hk]
  have ha := Nat.div_add_mod a.toNat (2 ^ (8 - k))
  have hb := Nat.div_add_mod b.toNat (2 ^ (8 - k))
  have hpos : 0 < 2 ^ (8 - k) := Nat.two_pow_pos (8 - k)
  have hma := Nat.mod_lt a.toNat hpos
  have hmb := Nat.mod_lt b.toNat hpos
  constructor
  · intro h
    have e : 2 ^ (8 - k) * (a.toNat / 2 ^ (8 - k)) = 2 ^ (8 - k) * (b.toNat / 2 ^ (8 - k)) := by omega
    exact Nat.eq_of_mul_eq_mul_left hpos e
  · intro h
    rw [h] at ha
    omega

/-- the mask octets rcgen derives from a prefix length are `maskByte` of the bits that fall
    into each octet (all 256 prefix lengths, both families: `C02.cidr_mask_all_prefixes`) -/
theorem prefix_mask_octets :
    (List.range 256).all (fun n =>
      prefixMask 32 n == (List.range 4).map (fun i => UInt8.ofNat (maskByte (min 8 (min n 32 - min (min n 32) (8 * i))) % 256)) &&
      prefixMask 128 n == (List.range 16).map (fun i => UInt8.ofNat (maskByte (min 8 (min n 128 - min (min n 128) (8 * i))) % 256))) = true := by
  decide +kernel

/-- `ipInSubnet` compares octet by octet under the mask; names of the other address family
    never match (their length differs) -/
theorem ip_other_family_never_matches (addr constraint : Bytes)
    (h : constraint.length ≠ 2 * addr.length) : ipInSubnet addr constraint = false := by
  unfold ipInSubnet
  have : (constraint.length == 2 * addr.length) = false := by simpa using h
  simp [this]

/-- **DNS subtree = label-aligned suffix** (constraint without a leading dot): a name is inside
    iff it equals the constraint or ends in `"." ++ constraint`, case-insensitively -/
theorem dns_in_subtree_iff_suffix (name c : Bytes) (hc : c ≠ []) (hdot : (c.map lower).head? ≠ some 46) :
    dnsInSubtree name c = true ↔
      (name.map lower = c.map lower ∨
        ∃ pre, name.map lower = pre ++ [46] ++ c.map lower) := by
  unfold dnsInSubtree
  simp only
  have hne : (c.map lower).isEmpty = false := by
    cases c with
    | nil => exact absurd rfl hc
    | cons x xs => rfl
  have hd : ((c.map lower).head? == some 46) = false := by
    cases h : (c.map lower).head? with
    | none => rfl
    | some v =>
      have : v ≠ 46 := fun e => hdot (by rw [h, e])
      simpa using this
  simp only [hne, Bool.false_eq_true, if_false, hd]
  generalize name.map lower = n
  generalize c.map lower = cc
  simp only [Bool.or_eq_true, beq_iff_eq, Bool.and_eq_true, decide_eq_true_eq]
  constructor
  · intro h
    rcases h with h | ⟨⟨hlen, hdrop⟩, hsep⟩
    · exact Or.inl h
    · right
      refine ⟨n.take (n.length - cc.length - 1), ?_⟩
      have h1 : n = n.take (n.length - cc.length) ++ n.drop (n.length - cc.length) :=
        (List.take_append_drop _ _).symm
      have h2 : n.take (n.length - cc.length) =
          n.take (n.length - cc.length - 1) ++ [46] := by
        have hidx : n.length - cc.length - 1 < n.length := by omega
        have hget : n[n.length - cc.length - 1]? = some n[n.length - cc.length - 1] :=
          List.getElem?_eq_getElem hidx
        rw [hget] at hsep
        injection hsep with hsep
        have hk : n.length - cc.length = (n.length - cc.length - 1) + 1 := by omega
        rw [hk, List.take_add_one, hget, hsep]
        simp
      exact Eq.trans h1 (by rw [h2, hdrop])
  · intro h
    rcases h with h | ⟨pre, h⟩
    · exact Or.inl h
    · right
      subst h
      have hl : (pre ++ [46] ++ cc).length - cc.length = (pre ++ [46]).length := by
        simp only [List.length_append, List.length_cons, List.length_nil]; omega
      refine ⟨⟨by simp only [List.length_append, List.length_cons, List.length_nil]; omega, ?_⟩, ?_⟩
      · rw [hl, List.drop_left]
      · have hl' : (pre ++ [46] ++ cc).length - cc.length - 1 = pre.length := by
          simp only [List.length_append, List.length_cons, List.length_nil]; omega
        rw [hl']
        simp

def ofChars (cs : List Char) : Bytes := cs.map (fun c => UInt8.ofNat c.toNat)

/-- a look-alike (`badexample.com` against `example.com`) is outside; the apex and any
    subdomain, in any letter case, are inside -/
theorem dns_examples :
    dnsInSubtree (ofChars ['b','a','d','e','x','a','m','p','l','e','.','c','o','m'])
      (ofChars ['e','x','a','m','p','l','e','.','c','o','m']) = false ∧
    dnsInSubtree (ofChars ['e','x','a','m','p','l','e','.','c','o','m'])
      (ofChars ['e','x','a','m','p','l','e','.','c','o','m']) = true ∧
    dnsInSubtree (ofChars ['A','.','E','x','a','m','p','l','e','.','C','O','M'])
      (ofChars ['e','x','a','m','p','l','e','.','c','o','m']) = true := by decide

def win (ca : IsCa) (y1 y2 : Int) : CertParams :=
  { notBefore := ⟨y1, 1, 1, 0, 0, 0, 0, 0⟩, notAfter := ⟨y2, 1, 1, 0, 0, 0, 0, 0⟩, serial := none,
    sans := [], dn := DistinguishedName.new, isCa := ca, keyUsages := [], ekus := [],
    nameConstraints := none, crlDps := [], customExts := [], useAki := false,
    keyIdMethod := .sha256 }

/-- non-vacuity of `expectedVerdict`: the baseline chain is expected to be accepted; making the
    issuer a non-CA, or verifying after the leaf's window, flips the expectation -/
theorem expected_examples :
    expectedVerdict true true [win (.ca none) 2020 2040, win .noCa 2022 2038] 1748736000 .serverAuth = true ∧
    expectedVerdict true true [win .noCa 2020 2040, win .noCa 2022 2038] 1748736000 .serverAuth = false ∧
    expectedVerdict true true [win (.ca none) 2020 2040, win .noCa 2022 2038] 2200000000 .serverAuth = false ∧
    -- a path-length limit of 0 on the root forbids an intermediate
    expectedVerdict true true [win (.ca (some 0)) 2020 2040, win (.ca none) 2021 2039, win .noCa 2022 2038]
      1748736000 .serverAuth = false := by decide

/-! ### the validator's verdict is the one the parameters imply -/

abbrev Link := Proofs.Validate.Link
abbrev chainOf := Proofs.Validate.chainOf

/-- **the RFC 5280 §6.1 validator, run on what the certificates of a generated chain decode
    to, returns the verdict the parameters imply** — for every chain anchor → … → leaf of any
    length ≥ 2 in which each certificate is issued by the one before it, every parameter set of
    every certificate (CA flag and path length, validity in any offset, key usages, extended
    key usages, DNS / IP / directory name constraints, subject alternative names, anything
    else), every verification time and purpose, and both validator profiles (anchor checked
    like any CA or trusted for name and key only; keyCertSign required or not).  The records
    are those of `cert_decodes_to_record` (C02): `chain_records_decode` below. -/
theorem validator_verdict_is_implied (H : Hashes) (ac kc : Bool) (cas : List Link) (leaf : Link)
    (t : Int) (u : Purpose) (hne : cas ≠ [])
    (hc : ∀ l ∈ cas ++ [leaf], ∀ e ∈ l.p.customExts, e.oid ∉ Proofs.X509.knownOids) :
    validate ac kc ((chainOf H (cas ++ [leaf])).map Proofs.CertDecode.modelTbs) t u =
      expectedVerdict ac kc ((cas ++ [leaf]).map (·.p)) t u :=
  Proofs.Validate.chain_verdict H ac kc cas leaf t u hne hc

/-- strict DER decoding of the to-be-signed bytes of every certificate of the chain yields
    exactly those records -/
theorem chain_records_decode (l : List CertInputs) (h : ∀ ci ∈ l, Proofs.Validate.Good ci) :
    l.mapM (fun ci => decodeTbsCert (encode (tbsCertificate ci.H ci.p ci.subject ci.issuer))) =
      some (l.map Proofs.CertDecode.modelTbs) :=
  Proofs.Validate.chain_decodes l h

/-- the per-certificate readings, stated outright: what the validator reads from a decoded
    certificate is what the parameters say -/
theorem ca_clauses_from_requested (i : CertInputs)
    (hc : ∀ e ∈ i.p.customExts, e.oid ∉ Proofs.X509.knownOids) (t : Int) (u : Purpose) :
    isCaCert (Proofs.CertDecode.modelTbs i) = pIsCa i.p ∧
    pathLen (Proofs.CertDecode.modelTbs i) = pPathLen i.p ∧
    mayCertSign (Proofs.CertDecode.modelTbs i) = pMayCertSign i.p ∧
    timeValid (Proofs.CertDecode.modelTbs i) t = pTimeValid i.p t ∧
    ekuAllows (Proofs.CertDecode.modelTbs i) u = pEkuAllows i.p u ∧
    leafNames (Proofs.CertDecode.modelTbs i) = i.p.sans.map reqSan :=
  ⟨Proofs.Validate.isCa_model i hc, Proofs.Validate.pathLen_model i hc,
   Proofs.Validate.mayCertSign_model i hc, Proofs.Validate.timeValid_model i t,
   Proofs.Validate.ekuAllows_model i hc u, Proofs.Validate.leafNames_model i hc⟩

/-- non-vacuity: a three-certificate chain with a path-length limit, a name constraint and a
    leaf name outside it -/
example : (Proofs.Validate.chainOf ⟨id, id, id⟩
    [⟨win (.ca (some 1)) 2020 2040, ⟨.ed25519, [1]⟩⟩, ⟨win (.ca none) 2021 2039, ⟨.ed25519, [2]⟩⟩,
     ⟨win .noCa 2022 2038, ⟨.ed25519, [3]⟩⟩]).length = 3 := rfl

end Rcgen.Theorems.C12
