import Rcgen.Theorems.C09
import Rcgen.Theorems.C01
/-
  C08 — a CRL revokes exactly the listed certificates and says what was asked.
  This file: the refusal rules and the shape of the list; time fields are C09's.
-/
namespace Rcgen.Theorems.C08
open Rcgen Rcgen.Model

/-- no CRL is produced unless the instants, truncated to whole seconds — which is what gets
    encoded (C09) — are strictly ordered, and the issuer's declared key usages, if any,
    include cRLSign -/
theorem crl_refusals (H : Hashes) (p : CrlParams) (i : Issuer) (sign : Signer) (t : Asn1)
    (h : issueCrl H p i sign = .ok t) :
    p.thisUpdate.epochSeconds < p.nextUpdate.epochSeconds ∧
    (i.keyUsages = [] ∨ KeyUsage.crlSign ∈ i.keyUsages) := by
  unfold issueCrl at h
  split at h
  · cases h
  · rename_i h1
    split at h
    · cases h
    · rename_i h2
      constructor
      · unfold crlNextUpdateInvalid at h1
        simp only [decide_eq_true_eq] at h1
        omega
      · unfold crlIssuerNotSigner at h2
        simp only [Bool.and_eq_true, Bool.not_eq_true', List.isEmpty_eq_false_iff,
          List.contains_eq_mem, decide_eq_false_iff_not, not_and, Decidable.not_not] at h2
        by_cases he : i.keyUsages = []
        · exact Or.inl he
        · exact Or.inr (by simpa using h2 he)

/-- hence the *encoded* nextUpdate is later than the *encoded* thisUpdate -/
theorem encoded_next_after_this (H : Hashes) (p : CrlParams) (i : Issuer) (sign : Signer)
    (t : Asn1) (h : issueCrl H p i sign = .ok t)
    (hy1 : 0 ≤ C09.utcYear p.thisUpdate ∧ C09.utcYear p.thisUpdate ≤ 9999)
    (hy2 : 0 ≤ C09.utcYear p.nextUpdate ∧ C09.utcYear p.nextUpdate ≤ 9999) :
    ∃ a b fa fb, Spec.asTime (writeTime p.thisUpdate) = some (fa, a) ∧
      Spec.asTime (writeTime p.nextUpdate) = some (fb, b) ∧ a < b := by
  obtain ⟨hlt, _⟩ := crl_refusals H p i sign t h
  exact ⟨_, _, _, _, C09.time_same_instant _ hy1, C09.time_same_instant _ hy2, hlt⟩

/-- the two refusals are errors, never panics or partial output -/
theorem crl_refused_next_update (H : Hashes) (p : CrlParams) (i : Issuer) (sign : Signer)
    (h : p.nextUpdate.epochSeconds ≤ p.thisUpdate.epochSeconds) :
    issueCrl H p i sign = .err .invalidCrlNextUpdate := by
  unfold issueCrl crlNextUpdateInvalid; simp [h]

theorem crl_refused_not_signer (H : Hashes) (p : CrlParams) (i : Issuer) (sign : Signer)
    (h1 : p.thisUpdate.epochSeconds < p.nextUpdate.epochSeconds)
    (h2 : i.keyUsages ≠ []) (h3 : KeyUsage.crlSign ∉ i.keyUsages) :
    issueCrl H p i sign = .err .issuerNotCrlSigner := by
  unfold issueCrl crlNextUpdateInvalid crlIssuerNotSigner
  have : ¬ (p.nextUpdate.epochSeconds ≤ p.thisUpdate.epochSeconds) := by omega
  simp [this, h2, h3]

/-- TBSCertList: v2, signature algorithm, issuer name, the two times, the entries only when
    there are some, then the `[0]` extensions with AKI and CRL number always present -/
theorem crl_shape (H : Hashes) (p : CrlParams) (i : Issuer) :
    tbsCertList H p i =
      .seq ([Asn1.intOfNat 1, algIdent i.key.alg, writeDistinguishedName i.dn,
             writeTime p.thisUpdate, writeTime p.nextUpdate] ++
            (if p.revoked.isEmpty then [] else [Asn1.seq (p.revoked.map revokedNode)]) ++
            [Asn1.explicit 0 (.seq (crlExtensions H p i))]) := rfl

/-- one entry per revoked certificate, in the order given -/
theorem one_entry_per_revoked (p : CrlParams) :
    (p.revoked.map revokedNode).length = p.revoked.length := by simp

/-- reason absent and `unspecified` without an invalidity date produce the same entry -/
theorem unspecified_eq_absent (s : Bytes) (t : DateTime) :
    revokedNode ⟨s, t, some .unspecified, none⟩ = revokedNode ⟨s, t, none, none⟩ := by
  simp [revokedNode]

/-- the invalidity date is always written by the GeneralizedTime writer -/
theorem invalidity_date_generalized (dt : DateTime) :
    ∃ c, invalidityDateNode dt = .prim 0 24 c := ⟨_, rfl⟩

/-! non-vacuity: thisUpdate = t+0.1 s, nextUpdate = t+0.9 s is refused -/
example : crlNextUpdateInvalid
    { thisUpdate := ⟨2023, 1, 1, 0, 0, 0, 100000000, 0⟩,
      nextUpdate := ⟨2023, 1, 1, 0, 0, 0, 900000000, 0⟩,
      crlNumber := [1], idp := none, revoked := [], keyIdMethod := .sha256 } = true := by decide

end Rcgen.Theorems.C08
