import Rcgen.Proofs.CrlDecode
import Rcgen.Theorems.C02
/-
  C08 — a CRL revokes exactly the listed certificates and says what was asked.
  This file: the refusal rules, the shape of the list, and `crl_decodes_to_request`: the full
  typed decode of the TBSCertList (assembled in Proofs/CrlDecode.lean); time fields are C09's.
-/
namespace Rcgen.Theorems.C08
open Rcgen Rcgen.Model

/-- no CRL is produced unless the instants, truncated to whole seconds — which is what gets
    encoded (C09) — are strictly ordered, and the issuer's declared key usages, if any,
    include cRLSign -/
theorem crl_refusals (H : Hashes) (p : CrlParams) (i : Issuer) (sign : Signer) (t : Asn1)
    (h : issueCrl H p i sign = .ok t) :
    p.thisUpdate.epochSeconds < p.nextUpdate.epochSeconds ∧
    (i.keyUsages = [] ∨ KeyUsage.crlSign ∈ i.keyUsages) := by
  unfold issueCrl at h
  split at h
  · cases h
  · rename_i h1
    split at h
    · cases h
    · rename_i h2
      constructor
      · unfold crlNextUpdateInvalid at h1
        simp only [decide_eq_true_eq] at h1
        omega
      · unfold crlIssuerNotSigner at h2
        simp only [Bool.and_eq_true, Bool.not_eq_true', List.isEmpty_eq_false_iff,
          List.contains_eq_mem, decide_eq_false_iff_not, not_and, Decidable.not_not] at h2
        by_cases he : i.keyUsages = []
        · exact Or.inl he
        · exact Or.inr (by simpa using h2 he)

/-- hence the *encoded* nextUpdate is later than the *encoded* thisUpdate -/
theorem encoded_next_after_this (H : Hashes) (p : CrlParams) (i : Issuer) (sign : Signer)
    (t : Asn1) (h : issueCrl H p i sign = .ok t)
    (hy1 : 0 ≤ C09.utcYear p.thisUpdate ∧ C09.utcYear p.thisUpdate ≤ 9999)
    (hy2 : 0 ≤ C09.utcYear p.nextUpdate ∧ C09.utcYear p.nextUpdate ≤ 9999) :
    ∃ a b fa fb, Spec.asTime (writeTime p.thisUpdate) = some (fa, a) ∧
      Spec.asTime (writeTime p.nextUpdate) = some (fb, b) ∧ a < b := by
  obtain ⟨hlt, _⟩ := crl_refusals H p i sign t h
  exact ⟨_, _, _, _, C09.time_same_instant _ hy1, C09.time_same_instant _ hy2, hlt⟩

/-- the two refusals are errors, never panics or partial output -/
theorem crl_refused_next_update (H : Hashes) (p : CrlParams) (i : Issuer) (sign : Signer)
    (h : p.nextUpdate.epochSeconds ≤ p.thisUpdate.epochSeconds) :
    issueCrl H p i sign = .err .invalidCrlNextUpdate := by
  unfold issueCrl crlNextUpdateInvalid; simp [h]

theorem crl_refused_not_signer (H : Hashes) (p : CrlParams) (i : Issuer) (sign : Signer)
    (h1 : p.thisUpdate.epochSeconds < p.nextUpdate.epochSeconds)
    (h2 : i.keyUsages ≠ []) (h3 : KeyUsage.crlSign ∉ i.keyUsages) :
    issueCrl H p i sign = .err .issuerNotCrlSigner := by
  unfold issueCrl crlNextUpdateInvalid crlIssuerNotSigner
  have : ¬ (p.nextUpdate.epochSeconds ≤ p.thisUpdate.epochSeconds) := by omega
  simp [this, h2, h3]

/-- TBSCertList: v2, signature algorithm, issuer name, the two times, the entries only when
    there are some, then the `[0]` extensions with AKI and CRL number always present -/
theorem crl_shape (H : Hashes) (p : CrlParams) (i : Issuer) :
    tbsCertList H p i =
      .seq ([Asn1.intOfNat 1, algIdent i.key.alg, writeDistinguishedName i.dn,
             writeTime p.thisUpdate, writeTime p.nextUpdate] ++
            (if p.revoked.isEmpty then [] else [Asn1.seq (p.revoked.map revokedNode)]) ++
            [Asn1.explicit 0 (.seq (crlExtensions H p i))]) := rfl

/-- one entry per revoked certificate, in the order given -/
theorem one_entry_per_revoked (p : CrlParams) :
    (p.revoked.map revokedNode).length = p.revoked.length := by simp

/-- reason absent and `unspecified` without an invalidity date produce the same entry -/
theorem unspecified_eq_absent (s : Bytes) (t : DateTime) :
    revokedNode ⟨s, t, some .unspecified, none⟩ = revokedNode ⟨s, t, none, none⟩ := by
  simp [revokedNode]

/-- the invalidity date is always written by the GeneralizedTime writer -/
theorem invalidity_date_generalized (dt : DateTime) :
    ∃ c, invalidityDateNode dt = .prim 0 24 c := ⟨_, rfl⟩

/-- **a CRL says exactly what its parameters say.**  For every parameter set, issuer and hash
    family: when the CRL is not refused and validation passes, strict DER decoding of the
    to-be-signed bytes followed by the RFC 5280 §5 readers yields exactly the request — the
    issuer name, both update instants (nextUpdate later than thisUpdate as encoded), the CRL
    number, the authority key identifier as the configured digest of the issuer's
    SubjectPublicKeyInfo, the issuing distribution point (URIs and scope flag) exactly when
    requested and no other CRL extension, and one entry per revoked certificate, in order, with
    that serial, that revocation instant, the reason code (absent ≡ unspecified) and the
    invalidity date as GeneralizedTime, and no other entry extension.  Any number of entries,
    serials and URIs of any length. -/
theorem crl_decodes_to_request (i : Spec.CrlInputs)
    (hn : crlNextUpdateInvalid i.p = false)
    (hs : crlIssuerNotSigner i.issuer = false)
    (hinv : crlInvalid i.p i.issuer = none)
    (hnp : crlPanics i.p i.issuer = false)
    (hsize : (encode (tbsCertList i.H i.p i.issuer)).length < 256 ^ 126) :
    Spec.c08Clauses i (encode (tbsCertList i.H i.p i.issuer)) = [] :=
  Proofs.CrlDecode.c08_clauses_hold i hn hs hinv hnp hsize

/-- the typed record itself -/
theorem crl_decodes_to_record (i : Spec.CrlInputs)
    (hinv : crlInvalid i.p i.issuer = none)
    (hnp : crlPanics i.p i.issuer = false)
    (hsize : (encode (tbsCertList i.H i.p i.issuer)).length < 256 ^ 126) :
    Spec.decodeTbsCrl (encode (tbsCertList i.H i.p i.issuer)) = some (Proofs.CrlDecode.modelCrl i) :=
  Proofs.CrlDecode.tbsCrl_decodes i hinv hnp hsize

/-- stated on the public entry point: whatever CRL `issueCrl` returns decodes to the request -/
theorem issued_crl_decodes_to_request (i : Spec.CrlInputs) (sign : Signer) (t : Asn1)
    (h : issueCrl i.H i.p i.issuer sign = .ok t)
    (hsize : (encode (tbsCertList i.H i.p i.issuer)).length < 256 ^ 126) :
    Spec.c08Clauses i (encode (tbsCertList i.H i.p i.issuer)) = [] := by
  unfold issueCrl at h
  split at h
  · cases h
  · rename_i h1
    split at h
    · cases h
    · rename_i h2
      cases hinv : crlInvalid i.p i.issuer with
      | some e => simp [hinv] at h
      | none =>
        simp only [hinv] at h
        split at h
        · cases h
        · rename_i h3
          exact crl_decodes_to_request i (by simpa using h1) (by simpa using h2) hinv
            (by simpa using h3) hsize

/-- every time field of the CRL — thisUpdate, nextUpdate, each revocationDate — decodes to the
    same instant in the RFC 5280 form (C09 on the whole artefact) -/
theorem crl_time_fields_decode (i : Spec.CrlInputs)
    (hinv : crlInvalid i.p i.issuer = none)
    (hnp : crlPanics i.p i.issuer = false)
    (hsize : (encode (tbsCertList i.H i.p i.issuer)).length < 256 ^ 126) :
    Spec.c09CrlClauses i (encode (tbsCertList i.H i.p i.issuer)) = [] :=
  Proofs.CrlDecode.c09_crl_clauses_hold i hinv hnp hsize

/-! non-vacuity of `crl_decodes_to_request`: three entries (reason only, invalidity date only,
    `unspecified` with a date), an issuing distribution point with a scope, dates in offsets -/
def exCrl : Spec.CrlInputs :=
  { H := ⟨fun _ => List.replicate 32 7, fun _ => List.replicate 48 7, fun _ => List.replicate 64 7⟩,
    p := { thisUpdate := ⟨2024, 1, 1, 0, 0, 0, 5, 3600⟩, nextUpdate := ⟨2051, 1, 1, 0, 0, 0, 0, -7200⟩,
           crlNumber := [0, 200], idp := some ⟨[[0x68]], some .caCertsOnly⟩,
           revoked := [⟨[1], ⟨2023, 5, 5, 1, 2, 3, 0, 0⟩, some .keyCompromise, none⟩,
                       ⟨[0, 255], ⟨1949, 5, 5, 1, 2, 3, 0, 0⟩, none, some ⟨2022, 1, 1, 0, 0, 0, 0, 0⟩⟩,
                       ⟨[3], ⟨2023, 5, 5, 1, 2, 3, 0, 0⟩, some .unspecified, some ⟨2050, 1, 1, 0, 0, 0, 0, 0⟩⟩],
           keyIdMethod := .sha512 },
    issuer := { dn := (DistinguishedName.new.push .commonName (.utf8 [0x61])), keyIdMethod := .sha256,
                keyUsages := [.crlSign], key := ⟨.ecdsaP256, [4, 1, 2]⟩ } }

example : crlNextUpdateInvalid exCrl.p = false := by decide +kernel
example : crlIssuerNotSigner exCrl.issuer = false := by decide
example : crlInvalid exCrl.p exCrl.issuer = none := by decide +kernel
example : crlPanics exCrl.p exCrl.issuer = false := by decide +kernel
example : (encode (tbsCertList exCrl.H exCrl.p exCrl.issuer)).length < 256 ^ 126 := by decide +kernel

/-- **revoked if and only if listed.**  A revocation checker reading the decoded list reports
    a serial number as revoked exactly when one of the listed certificates has it — as a number:
    leading zero octets of the caller's serial bytes do not matter, on either side -/
theorem revoked_iff_listed (i : Spec.CrlInputs)
    (hinv : crlInvalid i.p i.issuer = none)
    (hnp : crlPanics i.p i.issuer = false)
    (hsize : (encode (tbsCertList i.H i.p i.issuer)).length < 256 ^ 126) (n : Nat) :
    ∃ c, Spec.decodeTbsCrl (encode (tbsCertList i.H i.p i.issuer)) = some c ∧
      (Spec.isRevoked c n = true ↔ ∃ r ∈ i.p.revoked, ofBe r.serial = n) := by
  refine ⟨_, crl_decodes_to_record i hinv hnp hsize, ?_⟩
  unfold Spec.isRevoked Proofs.CrlDecode.modelCrl
  by_cases he : i.p.revoked.isEmpty = true
  · have : i.p.revoked = [] := List.isEmpty_iff.1 he
    simp [this]
  · simp only [he, Bool.false_eq_true, if_false, Option.getD_some, List.any_map, List.any_eq_true,
      Function.comp, Proofs.CrlDecode.modelEntry, beq_iff_eq]

/-- **a certificate rcgen issued is revoked by a CRL rcgen issued exactly when its serial number
    was listed**: the serial number an RFC 5280 reader finds in the certificate (C02) is revoked
    according to the decoded CRL iff some listed serial denotes the same integer as the
    certificate's -/
theorem issued_certificate_revoked_iff_listed (i : Spec.CrlInputs) (ci : Spec.CertInputs)
    (serial : Bytes) (hser : ci.p.serial = some serial)
    (hinv : crlInvalid i.p i.issuer = none) (hnp : crlPanics i.p i.issuer = false)
    (hsize : (encode (tbsCertList i.H i.p i.issuer)).length < 256 ^ 126)
    (cinv : certInvalid ci.p ci.issuer = none) (cnp : certPanics ci.p ci.issuer = false)
    (chc : ∀ e ∈ ci.p.customExts, e.oid ∉ C02.interpretedOids)
    (csize : (encode (tbsCertificate ci.H ci.p ci.subject ci.issuer)).length < 256 ^ 126) :
    ∃ crl cert, Spec.decodeTbsCrl (encode (tbsCertList i.H i.p i.issuer)) = some crl ∧
      Spec.decodeTbsCert (encode (tbsCertificate ci.H ci.p ci.subject ci.issuer)) = some cert ∧
      (Spec.isRevoked crl cert.serial = true ↔ ∃ r ∈ i.p.revoked, ofBe r.serial = ofBe serial) := by
  obtain ⟨crl, hcrl, hiff⟩ := revoked_iff_listed i hinv hnp hsize (ofBe serial)
  refine ⟨crl, _, hcrl, C02.cert_decodes_to_record ci cinv cnp chc csize, ?_⟩
  have : (Proofs.CertDecode.modelTbs ci).serial = ofBe serial := by
    simp [Proofs.CertDecode.modelTbs, Spec.reqSerial, hser]
  rw [this]; exact hiff

-- the example list revokes 1, 255 (given as 00 ff) and 3, and nothing else
example : ∃ c, Spec.decodeTbsCrl (encode (tbsCertList exCrl.H exCrl.p exCrl.issuer)) = some c ∧
    Spec.isRevoked c 255 = true ∧ Spec.isRevoked c 2 = false := by
  refine ⟨_, crl_decodes_to_record exCrl (by decide +kernel) (by decide +kernel) (by decide +kernel), ?_, ?_⟩ <;>
    decide +kernel

/-! non-vacuity: thisUpdate = t+0.1 s, nextUpdate = t+0.9 s is refused -/
example : crlNextUpdateInvalid
    { thisUpdate := ⟨2023, 1, 1, 0, 0, 0, 100000000, 0⟩,
      nextUpdate := ⟨2023, 1, 1, 0, 0, 0, 900000000, 0⟩,
      crlNumber := [1], idp := none, revoked := [], keyIdMethod := .sha256 } = true := by decide

end Rcgen.Theorems.C08
