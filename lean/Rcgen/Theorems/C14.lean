import Rcgen.Proofs.Pem
import Rcgen.Proofs.PemParse
/-
  C14 — PEM output is a faithful RFC 7468 envelope of the DER.
  Model: `pemEncode` (Model/Pem.lean) = pem 3.0.5 `encode_config` as rcgen configures it.
  Spec: `Spec.pemDecode`, a strict RFC 7468 decoder written independently.
-/
namespace Rcgen.Theorems.C14
open Rcgen Rcgen.Model Rcgen.Spec

theorem bodyShape_eq (l : List Bytes) : bodyShape l = shapeOk 64 l := by
  induction l with
  | nil => rfl
  | cons a l ih =>
    cases l with
    | nil => rfl
    | cons b l' => simp only [bodyShape, shapeOk, ih]

theorem header_lines (k : PemKind) :
    stripLine Spec.beginPrefix (Model.beginPrefix ++ k.label ++ Model.dashes) = some k.label ∧
    stripLine Spec.endPrefix (Model.endPrefix ++ k.label ++ Model.dashes) = some k.label ∧
    (∀ x ∈ Model.beginPrefix ++ k.label ++ Model.dashes, x ≠ 10) ∧
    (∀ x ∈ Model.endPrefix ++ k.label ++ Model.dashes, x ≠ 10) := by
  cases k <;> decide

/-- **strict round trip**: for each of the five artefact kinds and DER of any length, the text
    rcgen emits decodes under the strict RFC 7468 decoder to exactly (label, DER): right
    BEGIN/END lines, lines of 64 except the last, canonical padding, LF endings, nothing else -/
theorem pem_strict_roundtrip (k : PemKind) (der : Bytes) :
    pemDecode (pemEncode k.label der) = some (k.label, der) := by
  obtain ⟨h1, h2, h3, h4⟩ := header_lines k
  have hlines : ∀ l ∈ chunks 64 (b64Encode der), ∀ x ∈ l, x ≠ 10 := by
    intro l hl x hx
    exact b64Encode_no_lf der x (mem_chunksAux_subset 64 _ _ l hl x hx)
  have htext : pemEncode k.label der =
      ((Model.beginPrefix ++ k.label ++ Model.dashes) :: chunks 64 (b64Encode der)).flatMap
        (fun l => l ++ [10]) ++ ((Model.endPrefix ++ k.label ++ Model.dashes) ++ [10]) := by
    simp [pemEncode, List.flatMap_cons, List.append_assoc]
  have hsplit : splitLf (pemEncode k.label der) =
      (Model.beginPrefix ++ k.label ++ Model.dashes) ::
        (chunks 64 (b64Encode der) ++ [Model.endPrefix ++ k.label ++ Model.dashes, []]) := by
    rw [htext, splitLf_lines _ _ (by
      intro l hl
      simp only [List.mem_cons] at hl
      rcases hl with rfl | hl
      · exact h3
      · exact hlines l hl)]
    have : splitLf ((Model.endPrefix ++ k.label ++ Model.dashes) ++ [10]) =
        [Model.endPrefix ++ k.label ++ Model.dashes, []] := by
      have := splitLf_line (Model.endPrefix ++ k.label ++ Model.dashes) [] h4
      simpa [splitLf] using this
    rw [this]; rfl
  unfold pemDecode
  rw [hsplit]
  simp only [List.reverse_append, List.reverse_cons, List.reverse_nil, List.nil_append,
    List.cons_append, List.reverse_reverse, h1, h2, true_and]
  have hshape : bodyShape (chunks 64 (b64Encode der)) = true := by
    rw [bodyShape_eq]; exact chunksAux_shape 64 (by decide) _ _ (Nat.le_refl _)
  have hflat : (chunks 64 (b64Encode der)).flatten = b64Encode der :=
    chunksAux_flatten 64 (by decide) _ _ (Nat.le_refl _)
  simp only [hshape, if_true, hflat, b64Decode_b64Encode, Option.map_some]

/-- **the private-key text is the envelope of the DER accessor, or there is neither**: whatever
    `serialize_pem` returns decodes strictly to ("PRIVATE KEY", what `serialize_der` returns), and
    it returns nothing exactly when `serialize_der` does not (a key held by a remote signer: both
    panic) — never an envelope around bytes the DER accessor would not hand out -/
theorem private_key_text_wraps_der_accessor (k : KeyHolder) :
    (∀ t, k.serializePem = some t →
      ∃ d, k.serializeDer = some d ∧ pemDecode t = some (PemKind.privateKey.label, d)) ∧
    (k.serializePem = none ↔ k.serializeDer = none) := by
  cases k with
  | held doc =>
    refine ⟨?_, by simp [KeyHolder.serializePem, KeyHolder.serializeDer]⟩
    intro t ht
    simp only [KeyHolder.serializePem, KeyHolder.serializeDer, Option.some.injEq] at ht
    subst ht
    exact ⟨doc, rfl, pem_strict_roundtrip .privateKey doc⟩
  | remote =>
    exact ⟨by simp [KeyHolder.serializePem, KeyHolder.serializeDer], by simp [KeyHolder.serializePem, KeyHolder.serializeDer]⟩

example : (KeyHolder.held [48, 3, 2, 1, 0]).serializePem.isSome = true ∧
    KeyHolder.remote.serializePem = none := by decide

/-- base64 lines have exactly 64 characters except the last, which has 1..64 -/
theorem pem_lines_64 (der : Bytes) : shapeOk 64 (chunks 64 (b64Encode der)) = true :=
  chunksAux_shape 64 (by decide) _ _ (Nat.le_refl _)

/-- the label of each kind is the RFC 7468 one (§5 CERTIFICATE, §7 CERTIFICATE REQUEST,
    §6 X509 CRL, §10 PRIVATE KEY, §13 PUBLIC KEY) -/
def ofChars (cs : List Char) : Bytes := cs.map (fun c => UInt8.ofNat c.toNat)

theorem label_of_kind :
    PemKind.certificate.label = ofChars ['C', 'E', 'R', 'T', 'I', 'F', 'I', 'C', 'A', 'T', 'E'] ∧
    PemKind.request.label = ofChars ['C', 'E', 'R', 'T', 'I', 'F', 'I', 'C', 'A', 'T', 'E', ' ', 'R', 'E', 'Q', 'U', 'E', 'S', 'T'] ∧
    PemKind.crl.label = ofChars ['X', '5', '0', '9', ' ', 'C', 'R', 'L'] ∧
    PemKind.privateKey.label = ofChars ['P', 'R', 'I', 'V', 'A', 'T', 'E', ' ', 'K', 'E', 'Y'] ∧
    PemKind.publicKey.label = ofChars ['P', 'U', 'B', 'L', 'I', 'C', ' ', 'K', 'E', 'Y'] := by decide

/-- an empty body produces no body line at all -/
theorem pem_empty (k : PemKind) :
    pemEncode k.label [] = Model.beginPrefix ++ k.label ++ Model.dashes ++ [10] ++
      (Model.endPrefix ++ k.label ++ Model.dashes ++ [10]) := by
  simp [pemEncode, chunks, chunksAux, b64Encode]

/-! non-vacuity -/
example : pemDecode (pemEncode PemKind.crl.label [1, 2, 3, 4]) = some (PemKind.crl.label, [1, 2, 3, 4]) :=
  pem_strict_roundtrip _ _

/-- **rcgen's own PEM loaders accept that text and recover the same bytes**: the reader behind
    `KeyPair::from_pem`, `from_ca_cert_pem`, `CertificateSigningRequestParams::from_pem` and
    `SubjectPublicKeyInfo::from_pem` (pem 3.0.5 `parse`, Model/PemParse.lean) applied to the text
    rcgen writes for any of the five kinds returns that kind's label and exactly the bytes that
    were wrapped — for byte strings of every length, the empty one included -/
theorem own_loader_reads_own_text (k : PemKind) (der : Bytes) :
    pemParse (pemEncode k.label der) = .ok (k.label, der) :=
  Proofs.PemParse.pemParse_pemEncode k.label der (by cases k <;> decide) (by cases k <;> decide)

/-- … and so for any label that is not empty and holds no `-` -/
theorem lenient_reader_inverts_encoder (label der : Bytes) (hne : label ≠ [])
    (hl : ∀ x ∈ label, x ≠ 45) : pemParse (pemEncode label der) = .ok (label, der) :=
  Proofs.PemParse.pemParse_pemEncode label der hne hl

example : (match pemParse (pemEncode PemKind.crl.label [1, 2, 3, 4]) with
    | .ok (l, d) => l == PemKind.crl.label && d == [1, 2, 3, 4]
    | .error _ => false) = true := by decide +kernel

end Rcgen.Theorems.C14
