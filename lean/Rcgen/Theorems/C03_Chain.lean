import Rcgen.Theorems.C03
import Rcgen.Proofs.Validate
import Rcgen.Proofs.Spki
import Rcgen.Theorems.C11
/-
  C03, second part (it needs the RFC 5280 §6.1 validator and the decoded-certificate record of
  C02/C12, which sit above Theorems/C03.lean in the import graph; same namespace).

  The issuer certificate is *any* decoded certificate content `c` — what an OpenSSL-made CA, a
  hand-built one, or one of rcgen's own decodes to — that `from_ca_cert_der`'s glue accepts.
  Proved: everything issued from the imported parameters names `c`'s subject as its issuer and
  carries `c`'s subject key identifier as authority key identifier; and the path validator, run
  on `c` and on what the issued certificate decodes to, never rejects for a reason rcgen is
  responsible for — its verdict is exactly the conjunction of the conditions the property
  names (the issuer is a CA that may sign, the windows cover the time, the leaf's own purposes
  and the CA's name constraints admit it).
-/
namespace Rcgen.Theorems.C03
open Rcgen Rcgen.Model Rcgen.Spec Rcgen.Proofs.CertDecode Rcgen.Proofs.Validate

/-- what the import glue returns carries the name and key identifier it read first -/
theorem importCa_name_and_kid (crypto : Bool) (c : TbsCert) (p' : CertParams)
    (h : importCa crypto c = .ok p') :
    importName c.subject = .ok p'.dn ∧ importKid crypto c = .ok p'.keyIdMethod := by
  unfold importCa at h
  simp only [bind, Except.bind, pure, Except.pure] at h
  cases h1 : importName c.subject with
  | error e => simp [h1] at h
  | ok dn =>
    simp only [h1] at h
    cases u1 : uniqueExt c [2, 5, 29, 19] with
    | error e => simp [u1] at h
    | ok e1 =>
      simp only [u1] at h
      cases h2 : importIsCa e1 with
      | error e => simp [h2] at h
      | ok ca =>
        simp only [h2] at h
        cases u2 : uniqueExt c [2, 5, 29, 17] with
        | error e => simp [u2] at h
        | ok e2 =>
          simp only [u2] at h
          cases h3 : importSanExt e2 with
          | error e => simp [h3] at h
          | ok sans =>
            simp only [h3] at h
            cases u3 : uniqueExt c [2, 5, 29, 15] with
            | error e => simp [u3] at h
            | ok e3 =>
              simp only [u3] at h
              cases u4 : uniqueExt c [2, 5, 29, 37] with
              | error e => simp [u4] at h
              | ok e4 =>
                simp only [u4] at h
                cases u5 : uniqueExt c [2, 5, 29, 30] with
                | error e => simp [u5] at h
                | ok e5 =>
                  simp only [u5] at h
                  cases h4 : importNcExt e5 with
                  | error e => simp [h4] at h
                  | ok nc =>
                    simp only [h4] at h
                    cases h5 : importKid crypto c with
                    | error e => simp [h5] at h
                    | ok kid =>
                      simp only [h5, Except.ok.injEq] at h
                      subst h
                      exact ⟨rfl, rfl⟩

/-- **issuer name through any import**: for every decoded CA certificate `c` the import accepts
    — whoever made it — a certificate issued from the imported parameters decodes to an issuer
    field equal to `c`'s subject: same RDNs, attribute types, string kinds, values, order -/
theorem issued_from_any_import_names_issuer (crypto : Bool) (c : TbsCert) (p' : CertParams)
    (h : importCa crypto c = .ok p') (leaf : CertParams) (leafKey caKey : PubKey) (H : Hashes) :
    (modelTbs ⟨H, leaf, leafKey, issuerOf ⟨p', caKey⟩⟩).issuer = c.subject :=
  import_preserves_or_fails c.subject p'.dn (importCa_name_and_kid crypto c p' h).1

/-- **authority key identifier through any import**: when `c` carries a subject key identifier
    `b`, the key identifier written into everything issued from the import is `b` -/
theorem aki_from_any_import_is_ski (crypto : Bool) (c : TbsCert) (p' : CertParams)
    (h : importCa crypto c = .ok p') (b : Bytes) (rest : List Bytes)
    (hski : c.exts.filterMap skiOf = b :: rest) (caKey : PubKey) (H : Hashes) :
    akiValue H (issuerOf ⟨p', caKey⟩) = b := by
  have hk := (importCa_name_and_kid crypto c p' h).2
  rw [import_captures_ski crypto c b rest hski] at hk
  injection hk with hk
  simp [akiValue, issuerOf, ← hk, KeyIdMethod.derive]

/-- **the validator's verdict on (imported CA, issued certificate)** is the conjunction of the
    conditions C03 names and nothing else: name chaining — the one clause rcgen is responsible
    for — always holds -/
theorem imported_chain_verdict (crypto ac kc : Bool) (c : TbsCert) (p' : CertParams)
    (h : importCa crypto c = .ok p') (leaf : CertParams) (leafKey caKey : PubKey) (H : Hashes)
    (hcust : ∀ e ∈ leaf.customExts, e.oid ∉ Proofs.X509.knownOids) (t : Int) (u : Purpose) :
    validate ac kc [c, modelTbs ⟨H, leaf, leafKey, issuerOf ⟨p', caKey⟩⟩] t u =
      (pTimeValid leaf t && pEkuAllows leaf u &&
       ((!ac || (isCaCert c && (!kc || mayCertSign c) && timeValid c t)) &&
        ncAllowsLeaf c (modelTbs ⟨H, leaf, leafKey, issuerOf ⟨p', caKey⟩⟩))) := by
  have hiss := issued_from_any_import_names_issuer crypto c p' h leaf leafKey caKey H
  have ht := timeValid_model ⟨H, leaf, leafKey, issuerOf ⟨p', caKey⟩⟩ t
  have he := ekuAllows_model ⟨H, leaf, leafKey, issuerOf ⟨p', caKey⟩⟩ hcust u
  simp only [validate, List.reverse_cons, List.reverse_nil, List.nil_append, List.singleton_append,
    List.length_cons, List.length_nil, List.drop_one, List.tail_cons, List.zip_cons_cons,
    List.zip_nil_right, List.all_cons, List.all_nil, Bool.and_true, hiss, beq_self_eq_true,
    Bool.true_and, ht, he]
  have hr : List.range (0 + 1) = [0] := rfl
  rw [hr]
  cases hp : pathLen c <;> simp [hp]

/-- **chain accepted**: whenever the imported issuer is a CA allowed to sign, both windows cover
    the verification time, the leaf's purposes admit the use and the CA's name constraints the
    leaf's names, the validator accepts — under both validator profiles -/
theorem imported_chain_accepted (crypto ac kc : Bool) (c : TbsCert) (p' : CertParams)
    (h : importCa crypto c = .ok p') (leaf : CertParams) (leafKey caKey : PubKey) (H : Hashes)
    (hcust : ∀ e ∈ leaf.customExts, e.oid ∉ Proofs.X509.knownOids) (t : Int) (u : Purpose)
    (hca : isCaCert c = true) (hku : mayCertSign c = true) (htc : timeValid c t = true)
    (htl : pTimeValid leaf t = true) (heku : pEkuAllows leaf u = true)
    (hnc : ncAllowsLeaf c (modelTbs ⟨H, leaf, leafKey, issuerOf ⟨p', caKey⟩⟩) = true) :
    validate ac kc [c, modelTbs ⟨H, leaf, leafKey, issuerOf ⟨p', caKey⟩⟩] t u = true := by
  rw [imported_chain_verdict crypto ac kc c p' h leaf leafKey caKey H hcust t u]
  simp [hca, hku, htc, htl, heku, hnc]

/-- … and rejected when the issuer is not a CA (checked anchors), or a window does not cover the
    time -/
theorem imported_chain_rejected (crypto kc : Bool) (c : TbsCert) (p' : CertParams)
    (h : importCa crypto c = .ok p') (leaf : CertParams) (leafKey caKey : PubKey) (H : Hashes)
    (hcust : ∀ e ∈ leaf.customExts, e.oid ∉ Proofs.X509.knownOids) (t : Int) (u : Purpose)
    (hbad : isCaCert c = false ∨ timeValid c t = false ∨ pTimeValid leaf t = false) :
    validate true kc [c, modelTbs ⟨H, leaf, leafKey, issuerOf ⟨p', caKey⟩⟩] t u = false := by
  rw [imported_chain_verdict crypto true kc c p' h leaf leafKey caKey H hcust t u]
  rcases hbad with hb | hb | hb <;> simp [hb]

/-- **a certificate issued to a public key alone is the certificate issued to the key pair**: for
    every key of every algorithm of the build, parameters and issuer, issuing to what
    `SubjectPublicKeyInfo::from_der` makes of the key's exported SubjectPublicKeyInfo gives the
    same to-be-signed certificate — same SubjectPublicKeyInfo, same subject key identifier (the
    configured digest of it), same automatic serial — as issuing to the key.  So a CA certified
    for its public key alone carries the subject key identifier its own issuances will name. -/
theorem issued_to_public_key_alone (b : Backend) (H : Hashes) (p : CertParams) (k k' : PubKey)
    (i : Issuer) (ha : k.alg ∈ publicAlgs b) (hl : (encode (spkiNode k)).length < 256 ^ 126)
    (h : spkiFromDer b (spkiDer k) = some k') :
    tbsCertificate H p k' i = tbsCertificate H p k i := by
  obtain ⟨a, h1, h2, _⟩ := C11.spki_import_of_export b k ha hl
  rw [h1] at h
  cases h
  have hn : spkiNode ⟨a, k.raw⟩ = spkiNode k := by simp [spkiNode, h2]
  have hd : spkiDer ⟨a, k.raw⟩ = spkiDer k := by simp [spkiDer, hn]
  simp only [tbsCertificate, tbsCertificateFields, certExtensions, caExts, skiExt, serialNode,
    autoSerialBytes, hn, hd]


/-! non-vacuity: a CA content with two RDNs, basicConstraints cA, an SKI — imports, and the
    chain to a default leaf is accepted in 2025 -/
def exCa : TbsCert :=
  { version := 2, serial := 7, sigAlg := [], issuer := [[⟨[2,5,4,3], 12, [97]⟩]],
    notBefore := (.utc, 1577836800), notAfter := (.utc, 1893456000),
    subject := [[⟨[2,5,4,10], 19, [66]⟩], [⟨[2,5,4,3], 12, [97]⟩]], spki := [],
    exts := [⟨[2,5,29,19], true, .basicConstraints true none⟩, ⟨[2,5,29,14], false, .ski [1,2,3]⟩] }

example : ∃ p', importCa true exCa = .ok p' ∧ p'.keyIdMethod = .preSpecified [1,2,3] :=
  ⟨_, rfl, rfl⟩
example : isCaCert exCa = true ∧ mayCertSign exCa = true ∧ timeValid exCa 1748736000 = true := by
  decide

end Rcgen.Theorems.C03
