import Rcgen.Theorems.C02
import Rcgen.Theorems.C08
import Rcgen.Proofs.Profile
/-
  C05 — output satisfies the structural MUSTs of the RFC 5280 / RFC 2986 profile.
  Stated on the trees the writers produce (criticality flag = presence of BOOLEAN TRUE in the
  Extension SEQUENCE, `extNode`).
-/
namespace Rcgen.Theorems.C05
open Rcgen Rcgen.Model

/-- v3 always (so in particular whenever extensions are carried) -/
theorem version_v3 (H : Hashes) (p : CertParams) (s : PubKey) (i : Issuer) :
    (tbsCertificateFields H p s i)[0]? = some (.cons 2 0 [.prim 0 2 [2]]) := by
  simp [tbsCertificateFields, Asn1.explicit, Asn1.intOfNat]
  decide

theorem stripZeros_length_le (bs : Bytes) : (stripZeros bs).length ≤ bs.length := by
  induction bs with
  | nil => simp [stripZeros]
  | cons b bs ih => simp only [stripZeros]; split <;> simp <;> omega

theorem stripZeros_head_or_shorter (b : UInt8) (bs : Bytes) :
    stripZeros (b :: bs) = b :: bs ∨ (stripZeros (b :: bs)).length ≤ bs.length := by
  simp only [stripZeros]
  split
  · right; exact stripZeros_length_le bs
  · left; rfl

/-- **automatic serial**: for every subject key and every hash family with at least 20 output
    octets, the serial is a non-negative INTEGER of at most 20 content octets.  It is zero only
    if the first 20 digest octets, top bit cleared, are all zero — a 159-bit preimage condition
    on SHA-256, kept visible as `hz` rather than hidden. -/
theorem auto_serial (H : Hashes) (k : PubKey) (h20 : 20 ≤ (H.sha256 k.raw).length) :
    let c := intContentOfBytes (autoSerialBytes H k)
    c.length ≤ 20 ∧ (∃ b r, c = b :: r ∧ b.toNat < 128) := by
  simp only
  unfold autoSerialBytes
  have hlen : ((H.sha256 k.raw).take 20).length = 20 := by simp; omega
  cases ht : (H.sha256 k.raw).take 20 with
  | nil => rw [ht] at hlen; simp at hlen
  | cons b r =>
    rw [ht] at hlen
    simp only [List.length_cons] at hlen
    simp only
    have hb : (UInt8.ofNat (b.toNat &&& 127)).toNat < 128 := by
      have : b.toNat &&& 127 ≤ 127 := Nat.and_le_right
      rw [UInt8.toNat_ofNat']
      omega
    generalize UInt8.ofNat (b.toNat &&& 127) = b' at hb
    unfold intContentOfBytes
    rcases stripZeros_head_or_shorter b' r with h | h
    · rw [h]
      have : ¬ b'.toNat ≥ 128 := by omega
      simp only [this, if_false]
      exact ⟨by simp; omega, b', r, rfl, hb⟩
    · cases hs : stripZeros (b' :: r) with
      | nil => exact ⟨by simp, 0, [], rfl, by decide⟩
      | cons x xs =>
        rw [hs] at h
        simp only [List.length_cons] at h
        simp only
        split
        · exact ⟨by simp; omega, 0, x :: xs, rfl, by decide⟩
        · rename_i hx; exact ⟨by simp; omega, x, xs, rfl, by omega⟩

/-- criticality flag of an extension node as written by `write_x509_extension` -/
def isCritical : Asn1 → Bool
  | .cons 0 16 [_, .prim 0 1 _, _] => true
  | _ => false

theorem extNode_critical (oid : List Nat) (c : Bool) (v : Bytes) :
    isCritical (extNode oid c v) = c := by
  cases c <;> simp [extNode, isCritical, Asn1.seq, Asn1.bool, Asn1.octets, Asn1.oid]

/-- subject alternative name is critical exactly when the subject name is empty -/
theorem san_critical_iff_subject_empty (p : CertParams) (h : p.sans ≠ []) :
    ∃ e, sanExt p = [e] ∧ isCritical e = p.dn.entries.isEmpty := by
  unfold sanExt
  have : p.sans.isEmpty = false := by simpa using h
  simp only [this, Bool.false_eq_true, if_false]
  exact ⟨_, rfl, extNode_critical _ _ _⟩

/-- basic constraints is critical (in CA certificates and whenever written); the subject key
    identifier next to it is not -/
theorem bc_critical_ski_not (H : Hashes) (p : CertParams) (s : PubKey) (pl : Option Nat)
    (h : p.isCa = .ca pl) :
    ∃ ski bc, caExts H p s = [ski, bc] ∧ isCritical ski = false ∧ isCritical bc = true := by
  unfold caExts
  rw [h]
  exact ⟨_, _, rfl, extNode_critical _ _ _, extNode_critical _ _ _⟩

/-- name constraints is critical, and an empty value is omitted -/
theorem nc_critical (nc : NameConstraints) :
    (nc.isEmpty = true → nameConstraintsExt (some nc) = []) ∧
    (nc.isEmpty = false → ∃ e, nameConstraintsExt (some nc) = [e] ∧ isCritical e = true) := by
  unfold nameConstraintsExt
  constructor
  · intro h; simp [h]
  · intro h; simp only [h, Bool.false_eq_true, if_false]; exact ⟨_, rfl, extNode_critical _ _ _⟩

/-- the authority key identifier is never critical (certificates and CRLs) -/
theorem aki_noncritical (k : Bytes) : isCritical (akiExt k) = false := extNode_critical _ _ _

/-- CRL: v2; AKI and CRL number always present and non-critical; IDP critical when requested;
    no revokedCertificates field when nothing is revoked -/
theorem crl_profile (H : Hashes) (p : CrlParams) (i : Issuer) :
    (∃ aki num rest, crlExtensions H p i = aki :: num :: rest ∧
      isCritical aki = false ∧ isCritical num = false ∧
      (p.idp = none → rest = []) ∧
      (∀ d, p.idp = some d → ∃ e, rest = [e] ∧ isCritical e = true)) ∧
    (p.revoked = [] →
      tbsCertList H p i =
        .seq [Asn1.intOfNat 1, algIdent i.key.alg, writeDistinguishedName i.dn,
              writeTime p.thisUpdate, writeTime p.nextUpdate,
              Asn1.explicit 0 (.seq (crlExtensions H p i))]) := by
  constructor
  · unfold crlExtensions
    refine ⟨_, _, _, rfl, extNode_critical _ _ _, extNode_critical _ _ _, ?_, ?_⟩
    · intro h; simp [h]
    · intro d h; simp only [h]; exact ⟨_, rfl, extNode_critical _ _ _⟩
  · intro h; simp [tbsCertList, h]

/-- **the certificate profile read off the decoded certificate**: every clause of
    `Spec.c05CertClauses` — version 3; the automatic serial positive and within 20 octets
    (hypothesis `hser`, discharged by `auto_serial` for any hash family with ≥ 20 output octets
    whose first 159 bits are not all zero); subject alternative name critical exactly when the
    subject is empty; basic constraints critical whenever cA is asserted; name constraints
    critical; authority and subject key identifiers non-critical; each of rcgen's own eight
    extension identifiers at most once — holds of the encoded to-be-signed certificate, for all
    parameters whose subject name is in a reachable state (`Inv`, C20) -/
theorem cert_profile_decoded (i : Spec.CertInputs)
    (hinv : certInvalid i.p i.issuer = none)
    (hnp : certPanics i.p i.issuer = false)
    (hc : ∀ e ∈ i.p.customExts, e.oid ∉ Proofs.X509.knownOids)
    (hsize : (encode (tbsCertificate i.H i.p i.subject i.issuer)).length < 256 ^ 126)
    (hdn : Inv i.p.dn)
    (hser : i.p.serial.isSome = true ∨ (0 < Spec.reqSerial i ∧ Spec.reqSerial i < 2 ^ 159)) :
    Spec.c05CertClauses i (encode (tbsCertificate i.H i.p i.subject i.issuer)) = [] :=
  Proofs.Profile.c05_cert_clauses_hold i hinv hnp hc hsize hdn hser

/-- each of rcgen's own extension identifiers occurs at most once in a certificate -/
theorem own_extension_oids_unique (i : Spec.CertInputs)
    (hc : ∀ e ∈ i.p.customExts, e.oid ∉ Proofs.X509.knownOids) (o : List Nat)
    (ho : o ∈ Proofs.X509.knownOids) :
    ((Proofs.CertDecode.modelExts i).filter (fun e => e.oid == o)).length ≤ 1 :=
  Proofs.Profile.own_oid_at_most_once i hc o ho

/-- the same profile read off the *decoded* CRL: every clause of `Spec.c05CrlClauses` (v2,
    nextUpdate present, AKI and CRL number exactly once and non-critical, IDP critical, no empty
    revokedCertificates) holds of the encoded TBSCertList for all parameters -/
theorem crl_profile_decoded (i : Spec.CrlInputs)
    (hinv : crlInvalid i.p i.issuer = none)
    (hnp : crlPanics i.p i.issuer = false)
    (hsize : (encode (tbsCertList i.H i.p i.issuer)).length < 256 ^ 126) :
    Spec.c05CrlClauses i (encode (tbsCertList i.H i.p i.issuer)) = [] :=
  Proofs.CrlDecode.c05_crl_clauses_hold i hinv hnp hsize

/-- CSR: version 0, attributes field always present, at most one extension request -/
theorem csr_profile (p : CertParams) (s : PubKey) (attrs : List Attribute) :
    (∃ a, csrInfo p s attrs = .seq [.prim 0 2 [0], writeDistinguishedName p.dn, spkiNode s, .cons 2 0 a]) ∧
    ((csrAttributes p []).length ≤ 1) := by
  constructor
  · refine ⟨sortByEncoding (csrAttributes p attrs), ?_⟩
    have h0 : intContentOfNat 0 = [0] := by decide
    simp [csrInfo, Asn1.intOfNat, Asn1.implicit, Asn1.setOf, h0]
  · unfold csrAttributes; split <;> simp

/-- ... and the subject alternative name a *request* asks for follows the same rule as the one a
    certificate carries: it is among the requested extensions, once, critical exactly when the
    request's subject is empty (the harness reads this clause off every real request) -/
theorem csr_san_critical_iff_subject_empty (p : CertParams) (h : p.sans ≠ []) :
    ∃ e, sanExt p = [e] ∧ e ∈ requestedExtensions p ∧ isCritical e = p.dn.entries.isEmpty := by
  obtain ⟨e, he, hc⟩ := san_critical_iff_subject_empty p h
  refine ⟨e, he, ?_, hc⟩
  unfold requestedExtensions
  simp [he]

/-! non-vacuity -/
example : isCritical (extNode [2, 5, 29, 19] true []) = true := by decide

end Rcgen.Theorems.C05
