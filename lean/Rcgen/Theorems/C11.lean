import Rcgen.Model.Keys
import Rcgen.Theorems.C01
import Rcgen.Proofs.Spki
/-
  C11 — private keys survive save/load and keep their identity and algorithm.
  Model: Model/Keys.lean — the loader cascades and explicit-algorithm chains of key_pair.rs over
  an abstract key document (format, key type) and a parser-acceptance table for ring / aws-lc-rs.
  The table is an assumption about the back ends (validated row by row by the correspondence);
  what is proved is rcgen's own logic on top of it, over the *whole* finite table.
-/
namespace Rcgen.Theorems.C11
open Rcgen Rcgen.Model

def allBackends : List Backend := [.ring, .aws]
def allKeyTypes : List KeyType := [.ed25519, .p256, .p384, .p521, .rsa, .rsaBig]
def allFormats : List DocFormat := [.pkcs8v1, .pkcs8v2, .sec1, .pkcs1]
def allDocs : List KeyDoc := allFormats.flatMap (fun f => allKeyTypes.map (fun k => ⟨f, k⟩))

/-- **save/load**: for every back end and every key type it supports, the document rcgen itself
    exports loads again through the auto-detecting entry points as a key of the same type with
    the algorithm auto-detection assigns to that type — and through every explicit-algorithm
    entry point as exactly the algorithm it is told, for each algorithm of that key type -/
theorem load_roundtrip :
    allBackends.all (fun b => allKeyTypes.all (fun k =>
      !supports b k ||
      (let d : KeyDoc := ⟨exportFormat b k, k⟩
       autodetect b d == .ok k.defaultAlg &&
       (publicAlgs b).all (fun a =>
         !a.fits k ||
         (loadPkcs8With b a d == .ok a && loadDerWith b a d == .ok a))))) = true := by decide

/-- **a loaded key exports PKCS#8, and that export loads again**: for every back end and every
    document it loads — whatever the encoding it came in (PKCS#8 v1/v2, SEC1, PKCS#1), through
    the auto-detecting or the explicit-algorithm entry points — what `serialize_der` /
    `serialize_pem` hand out is a PKCS#8 document of the same key type, which every entry
    point, the PKCS#8-only ones included, loads again as the same algorithm -/
theorem loaded_export_roundtrip :
    allBackends.all (fun b => allDocs.all (fun d => (publicAlgs b).all (fun a =>
      let loaded : Option SigAlg :=
        match loadDerWith b a d with
        | .ok x => some x
        | _ => none
      let auto : Option SigAlg :=
        match autodetect b d with
        | .ok x => some x
        | _ => none
      let e : KeyDoc := ⟨exportOfLoaded b d, d.kty⟩
      (loaded.isNone ||
        (e.wrapper == .pkcs8 && loadPkcs8With b a e == .ok a && loadDerWith b a e == .ok a &&
         autodetect b e == .ok d.kty.defaultAlg)) &&
      (auto.isNone ||
        (e.wrapper == .pkcs8 && autodetect b e == autodetect b d &&
         loadPkcs8With b d.kty.defaultAlg e == .ok d.kty.defaultAlg))))) = true := by decide

/-- every document some parser of the back end accepts is auto-detected as its own key type,
    never as another one (the cascade order cannot mis-type a key) -/
theorem autodetect_types_correctly :
    allBackends.all (fun b => allDocs.all (fun d =>
      match autodetect b d with
      | .ok a => a == d.kty.defaultAlg
      | .err _ => true
      | .panic => false)) = true := by decide

/-- **mismatch is an error**: loading any document under an algorithm it does not fit yields an
    error — never a mistyped key and never a panic — for every public algorithm constant of
    the back end (the `panic!("Unknown SignatureAlgorithm")` arms are unreachable from them) -/
theorem mismatch_is_error :
    allBackends.all (fun b => allDocs.all (fun d => (publicAlgs b).all (fun a =>
      (a.fits d.kty ||
        ((match loadPkcs8With b a d with | .err _ => true | _ => false) &&
         (match loadDerWith b a d with | .err _ => true | _ => false))) &&
      loadPkcs8With b a d != .panic && loadDerWith b a d != .panic))) = true := by decide

/-- a key loaded under an explicit algorithm reports that algorithm -/
theorem told_algorithm_kept (b : Backend) (a a' : SigAlg) (d : KeyDoc) :
    (loadPkcs8With b a d = .ok a' → a' = a) ∧ (loadDerWith b a d = .ok a' → a' = a) := by
  constructor
  · intro h
    cases a <;> cases b <;> simp [loadPkcs8With, tryParse] at h <;> (split at h <;> simp_all)
  · intro h
    cases a <;> cases b <;>
      simp [loadDerWith, loadPkcs8With, tryParse] at h <;> (try split at h) <;> (try split at h) <;> simp_all

/-- **algorithm equality, hashing and lookup by OID are consistent**: `==` holds exactly between
    a constant and itself, equal constants hash alike, and `from_oid` of a constant's own OID
    returns that constant -/
theorem alg_eq_hash_oid_consistent :
    allBackends.all (fun b => (publicAlgs b).all (fun x => (publicAlgs b).all (fun y =>
      (algEq x y == (x == y)) && (!algEq x y || algHashKey x == algHashKey y)) &&
      algFromOid b x.sigOid == some x)) = true := by decide

/-- **SubjectPublicKeyInfo round trip**: looking up the exported AlgorithmIdentifier returns an
    algorithm with the same SubjectPublicKeyInfo identifier — the same constant for every key
    type that determines it (all but RSA, where the SPKI does not say which hash) -/
theorem spki_roundtrip :
    allBackends.all (fun b => (publicAlgs b).all (fun a =>
      match spkiAlgLookup b (encode (spkiAlgIdent a)) with
      | some a' => encode (spkiAlgIdent a') == encode (spkiAlgIdent a) &&
                   (a.keyType == .rsa || a' == a)
      | none => false)) = true := by decide

/-- the exported SubjectPublicKeyInfo is the RFC one for (algorithm, key bits): C02.spki_is_rfc;
    its AlgorithmIdentifier is the RFC literal: C01.spki_algid_is_rfc_identifier -/
theorem spki_algid_rfc (a : SigAlg) : encode (spkiAlgIdent a) = Spec.rfcSpkiAlgId a :=
  C01.spki_algid_is_rfc_identifier a

/-- **`SubjectPublicKeyInfo::from_der` on what `public_key_der` wrote** (and `from_pem` on
    `public_key_pem`): for every key of every algorithm of the build, whatever its length, the
    parsed value has the same key octets and an algorithm with the same SubjectPublicKeyInfo
    AlgorithmIdentifier — the same constant for every key type that determines it -/
theorem spki_import_of_export (b : Backend) (k : PubKey) (ha : k.alg ∈ publicAlgs b)
    (hl : (encode (spkiNode k)).length < 256 ^ 126) :
    ∃ a, spkiFromDer b (spkiDer k) = some ⟨a, k.raw⟩ ∧ spkiAlgIdent a = spkiAlgIdent k.alg ∧
      (k.alg.keyType ≠ .rsa → a = k.alg) := by
  obtain ⟨a, h1, h2, h3⟩ := Proofs.Spki.lookup_own b k.alg ha
  refine ⟨a, ?_, h2, h3⟩
  unfold spkiFromDer
  rw [Proofs.Spki.spkiParts_spkiDer k hl]
  simp only [h1, Option.map_some]

/-- hence the exported SubjectPublicKeyInfo of the parsed value is, byte for byte, the one parsed -/
theorem spki_reexport (b : Backend) (k k' : PubKey) (ha : k.alg ∈ publicAlgs b)
    (hl : (encode (spkiNode k)).length < 256 ^ 126) (h : spkiFromDer b (spkiDer k) = some k') :
    spkiDer k' = spkiDer k := by
  obtain ⟨a, h1, h2, _⟩ := spki_import_of_export b k ha hl
  rw [h1] at h
  cases h
  simp [spkiDer, spkiNode, h2]

example : spkiFromDer .ring (spkiDer ⟨.ecdsaP384, [4, 1, 2]⟩) = some ⟨.ecdsaP384, [4, 1, 2]⟩ := by
  decide +kernel
example : spkiFromDer .ring (spkiDer ⟨.rsaSha512, [48, 0]⟩) = some ⟨.rsaSha256, [48, 0]⟩ := by
  decide +kernel

/-! non-vacuity: a mismatched pair that is refused, a matching one that loads -/
example : loadPkcs8With .ring .ecdsaP256 ⟨.pkcs8v1, .p384⟩ = .err .keyRejected := by decide
example : autodetect .aws ⟨.sec1, .p521⟩ = .ok .ecdsaP521 := by decide
-- a SEC1 key loaded by aws-lc-rs is handed out as PKCS#8, which the PKCS#8-only entry point loads
example : exportOfLoaded .aws ⟨.sec1, .p384⟩ = .pkcs8v1 ∧
    loadPkcs8With .aws .ecdsaP384 ⟨.sec1, .p384⟩ = .err .keyRejected ∧
    loadPkcs8With .aws .ecdsaP384 ⟨exportOfLoaded .aws ⟨.sec1, .p384⟩, .p384⟩ = .ok .ecdsaP384 := by decide

end Rcgen.Theorems.C11
