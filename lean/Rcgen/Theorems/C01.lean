import Rcgen.Model.Sign
import Rcgen.Spec.Props
import Rcgen.Proofs.DerRoundTrip
/-
  C01 — every issued artefact carries a valid signature over exactly its signed bytes.
  Model: `signDer` (key_pair.rs:411-429) and the three generation entry points (Model/Sign.lean);
  the signer is an arbitrary function `Bytes → Except Err Bytes` (local or remote key).
  Cryptography is a parameter: a signature scheme with the law "what `sign` returns verifies".
-/
namespace Rcgen.Theorems.C01
open Rcgen Rcgen.Model

/-- the bytes handed to the signer are the bytes embedded as the to-be-signed part; the
    signature returned is what goes into the BIT STRING; exactly one signer call decides -/
theorem signDer_signs_embedded_bytes (alg : SigAlg) (sign : Signer) (tbs t : Asn1)
    (h : signDer alg sign tbs = .ok t) :
    ∃ sig, sign (encode tbs) = .ok sig ∧ t = .seq [tbs, algIdent alg, .bitStringOctets sig] := by
  unfold signDer at h
  cases hs : sign (encode tbs) with
  | ok sig => rw [hs] at h; injection h with h; exact ⟨sig, rfl, h.symm⟩
  | error e => rw [hs] at h; cases h

/-- if the signer fails, its error is returned and no artefact exists -/
theorem signer_failure_no_artefact (alg : SigAlg) (sign : Signer) (tbs : Asn1) (e : Err)
    (h : sign (encode tbs) = .error e) : signDer alg sign tbs = .error e := by
  unfold signDer; rw [h]

/-- strict outer decoding of the artefact recovers exactly (tbs bytes, algorithm, signature) -/
theorem outer_decodes (alg : SigAlg) (tbs : Asn1) (sig : Bytes)
    (hwf : (Asn1.seq [tbs, algIdent alg, .bitStringOctets sig]).WF) :
    Spec.splitSigned (encode (.seq [tbs, algIdent alg, .bitStringOctets sig])) =
      some (encode tbs, encode (algIdent alg), sig) := by
  unfold Spec.splitSigned
  rw [decodeAll_encode _ hwf]
  simp only [Asn1.seq, Asn1.bitStringOctets, Asn1.bitString, bitStringContent_octets]
  rfl

/-- the algorithm identifier rcgen writes for each signing algorithm is, byte for byte, the
    RFC-registered one (RFC 4055 §5 with NULL parameters; RFC 5758 §3.2 and RFC 8410 §3 with
    parameters absent) -/
theorem algid_is_rfc_identifier (a : SigAlg) : encode (algIdent a) = Spec.rfcSigAlgId a := by
  cases a <;> decide

/-- and the key's algorithm identifier inside SubjectPublicKeyInfo is the RFC one
    (rsaEncryption with NULL; id-ecPublicKey with the named curve; id-Ed25519) -/
theorem spki_algid_is_rfc_identifier (a : SigAlg) :
    encode (spkiAlgIdent a) = Spec.rfcSpkiAlgId a := by
  cases a <;> decide

/-- inside a certificate the `signature` field is the same tree as the outer
    `signatureAlgorithm`: the identifier of the *issuer's* key algorithm -/
theorem inner_algid_eq_outer_cert (cfg : Config) (H : Hashes) (p : CertParams) (s : PubKey)
    (i : Issuer) (sign : Signer) (t : Asn1) (h : issueCert cfg H p s i sign = .ok t) :
    ∃ sig, t = .seq [tbsCertificate H p s i, algIdent i.key.alg, .bitStringOctets sig] ∧
      (tbsCertificateFields H p s i)[2]? = some (algIdent i.key.alg) ∧
      sign (encode (tbsCertificate H p s i)) = .ok sig := by
  unfold issueCert at h
  split at h
  · cases h
  · split at h
    · cases h
    · split at h
      · cases h
      · split at h
        · rename_i t' hs
          injection h with h
          subst h
          obtain ⟨sig, h1, h2⟩ := signDer_signs_embedded_bytes _ _ _ _ hs
          exact ⟨sig, h2, by simp [tbsCertificateFields], h1⟩
        · cases h

theorem inner_algid_eq_outer_crl (H : Hashes) (p : CrlParams) (i : Issuer) (sign : Signer)
    (t : Asn1) (h : issueCrl H p i sign = .ok t) :
    ∃ sig rest, t = .seq [tbsCertList H p i, algIdent i.key.alg, .bitStringOctets sig] ∧
      tbsCertList H p i = .seq (Asn1.intOfNat 1 :: algIdent i.key.alg :: rest) ∧
      sign (encode (tbsCertList H p i)) = .ok sig := by
  unfold issueCrl at h
  split at h
  · cases h
  · split at h
    · cases h
    · split at h
      · cases h
      · split at h
        · cases h
        · split at h
          · rename_i t' hs
            injection h with h
            subst h
            obtain ⟨sig, h1, h2⟩ := signDer_signs_embedded_bytes _ _ _ _ hs
            exact ⟨sig, _, h2, rfl, h1⟩
          · cases h

/-- a CSR is signed with the requester's own key algorithm over certificationRequestInfo -/
theorem csr_signed_by_subject (p : CertParams) (s : PubKey) (attrs : List Attribute)
    (sign : Signer) (t : Asn1) (h : serializeRequest p s attrs sign = .ok t) :
    ∃ sig, t = .seq [csrInfo p s attrs, algIdent s.alg, .bitStringOctets sig] ∧
      sign (encode (csrInfo p s attrs)) = .ok sig := by
  unfold serializeRequest at h
  split at h
  · cases h
  · split at h
    · cases h
    · split at h
      · cases h
      · split at h
        · rename_i t' hs
          injection h with h
          subst h
          obtain ⟨sig, h1, h2⟩ := signDer_signs_embedded_bytes _ _ _ _ hs
          exact ⟨sig, h2, h1⟩
        · cases h

/-- a signature scheme: whatever `sign` returns verifies under the matching public key -/
structure SigScheme where
  SK : Type
  PK : Type
  pk : SK → PK
  sign : SK → Bytes → Except Err Bytes
  verify : PK → Bytes → Bytes → Bool
  sound : ∀ sk m s, sign sk m = .ok s → verify (pk sk) m s = true

/-- every certificate the model returns verifies under the issuer key over exactly the
    embedded to-be-signed bytes (same argument for CSRs under the subject key and CRLs) -/
theorem signed_verifies (S : SigScheme) (sk : S.SK) (cfg : Config) (H : Hashes) (p : CertParams)
    (s : PubKey) (i : Issuer) (t : Asn1) (h : issueCert cfg H p s i (S.sign sk) = .ok t) :
    ∃ sig, t = .seq [tbsCertificate H p s i, algIdent i.key.alg, .bitStringOctets sig] ∧
      S.verify (S.pk sk) (encode (tbsCertificate H p s i)) sig = true := by
  obtain ⟨sig, h1, _, h3⟩ := inner_algid_eq_outer_cert cfg H p s i _ t h
  exact ⟨sig, h1, S.sound sk _ sig h3⟩

/-- a failing signer yields its error for all three kinds: there is no path to an artefact
    that does not go through a successful signer call -/
theorem signer_failure_cert (cfg : Config) (H : Hashes) (p : CertParams) (s : PubKey) (i : Issuer)
    (sign : Signer) (hfail : ∀ m, ∃ e, sign m = .error e) :
    ∀ t, issueCert cfg H p s i sign ≠ .ok t := by
  intro t h
  obtain ⟨sig, _, _, h3⟩ := inner_algid_eq_outer_cert cfg H p s i sign t h
  obtain ⟨e, he⟩ := hfail (encode (tbsCertificate H p s i))
  rw [he] at h3; cases h3

theorem signer_failure_csr (p : CertParams) (s : PubKey) (attrs : List Attribute)
    (sign : Signer) (hfail : ∀ m, ∃ e, sign m = .error e) :
    ∀ t, serializeRequest p s attrs sign ≠ .ok t := by
  intro t h
  obtain ⟨sig, _, h3⟩ := csr_signed_by_subject p s attrs sign t h
  obtain ⟨e, he⟩ := hfail (encode (csrInfo p s attrs))
  rw [he] at h3; cases h3

theorem signer_failure_crl (H : Hashes) (p : CrlParams) (i : Issuer)
    (sign : Signer) (hfail : ∀ m, ∃ e, sign m = .error e) :
    ∀ t, issueCrl H p i sign ≠ .ok t := by
  intro t h
  obtain ⟨sig, _, _, _, h3⟩ := inner_algid_eq_outer_crl H p i sign t h
  obtain ⟨e, he⟩ := hfail (encode (tbsCertList H p i))
  rw [he] at h3; cases h3

/-! non-vacuity: the hypotheses of `signDer_signs_embedded_bytes` are met by a concrete signer -/
example : signDer .ed25519 (fun _ => .ok [1, 2]) (.seq []) =
    .ok (.seq [.seq [], algIdent .ed25519, .bitStringOctets [1, 2]]) := rfl

end Rcgen.Theorems.C01
