import Rcgen.Theorems.C09
import Rcgen.Model.Sign
import Rcgen.Proofs.Ctor
/-
  C10 — the public API never panics (generation part; the parse entry points are third-party
  decoders followed by glue, see Theorems/C17 and the fuzz stream of the check).
  Model: the generation functions return `Out` whose `panic` constructor is reached exactly
  where yasna/time would assert (`certPanics`, `csrPanics`, `crlPanics`), *after* the
  validation `certInvalid` / `csrInvalid` / `crlInvalid` that the code performs up front.
  Theorem: for every value of the parameter types — any text, any OID list, any date the
  time type admits — the outcome is `ok` or `err`, never `panic`.  The only hypothesis is the
  invariant of the *validated string types* (an `Ia5String` is ASCII), which their constructors
  establish (C13) and no safe public API can break.
-/
namespace Rcgen.Theorems.C10
open Rcgen Rcgen.Model

/-- invariant carried by values of rcgen's validated string types -/
def valueOk : DnValue → Bool
  | .ia5 b => isAscii b
  | _ => true

def nameOk (dn : DistinguishedName) : Bool := dn.iter.all (fun e => valueOk e.2)

def sanOk : SanType → Bool
  | .rfc822 b | .dns b | .uri b => isAscii b
  | _ => true

def subtreeOk : GeneralSubtree → Bool
  | .directoryName dn => nameOk dn
  | _ => true

def paramsOk (p : CertParams) : Bool :=
  nameOk p.dn && p.sans.all sanOk &&
  (match p.nameConstraints with
   | some nc => nc.permitted.all subtreeOk && nc.excluded.all subtreeOk
   | none => true)

theorem firstErr_none (l : List (Option Err)) : firstErr l = none ↔ ∀ x ∈ l, x = none := by
  induction l with
  | nil => simp [firstErr]
  | cons a l ih =>
    cases a with
    | none => simp [firstErr, ih]
    | some e => simp [firstErr]

theorem time_no_panic (dt : DateTime) (h : checkTime dt = none) : timePanics dt = false := by
  have he : timeEncodable dt = true := by
    unfold checkTime at h; split at h <;> simp_all
  have hy := (C09.encodable_iff_utc_year dt).1 he
  have hyear : dt.toUtc.year = C09.utcYear dt := rfl
  unfold timePanics DateTime.toUtcInRange formYear
  simp only [hyear]
  have r1 : (decide ((-9999 : Int) ≤ C09.utcYear dt) && decide (C09.utcYear dt ≤ 9999)) = true := by
    simp; omega
  simp only [r1, Bool.not_true, Bool.false_eq_true, if_false]
  split
  · rename_i hf; simp; omega
  · simp; omega

theorem gentime_no_panic (dt : DateTime) (h : checkTime dt = none) : genTimePanics dt = false := by
  have he : timeEncodable dt = true := by
    unfold checkTime at h; split at h <;> simp_all
  have hy := (C09.encodable_iff_utc_year dt).1 he
  have hyear : dt.toUtc.year = C09.utcYear dt := rfl
  unfold genTimePanics DateTime.toUtcInRange
  simp only [hyear]
  have r1 : (decide ((-9999 : Int) ≤ C09.utcYear dt) && decide (C09.utcYear dt ≤ 9999)) = true := by
    simp; omega
  simp only [r1, Bool.not_true, Bool.false_eq_true, if_false]
  simp; omega

theorem std_oid_ok (t : DnType) (h : ∀ o, t ≠ .custom o) : oidOk t.oid = true := by
  cases t <;> first | decide | exact absurd rfl (h _)

theorem name_no_panic (dn : DistinguishedName) (h : checkName dn = none) (hv : nameOk dn = true) :
    dnPanics dn = false := by
  unfold dnPanics
  rw [Bool.eq_false_iff]
  intro hany
  rw [List.any_eq_true] at hany
  obtain ⟨e, he, hb⟩ := hany
  unfold checkName at h
  rw [firstErr_none] at h
  have h1 := h _ (List.mem_map_of_mem he)
  unfold nameOk at hv
  rw [List.all_eq_true] at hv
  have h2 := hv e he
  have hoid : oidOk e.1.oid = true := by
    cases ht : e.1 with
    | custom o =>
      simp only [ht] at h1
      unfold checkOid at h1
      split at h1
      · rename_i hok; simpa [DnType.oid] using hok
      · simp at h1
    | _ => decide
  have hval : dnValuePanics e.2 = false := by
    cases hv2 : e.2 <;> simp_all [dnValuePanics, valueOk]
  simp [hoid, hval] at hb

theorem checkOid_none {o : List Nat} (h : checkOid o = none) : oidOk o = true := by
  unfold checkOid at h
  split at h
  · assumption
  · simp at h

theorem checkIa5_none {b : Bytes} (h : checkIa5 b = none) : isAscii b = true := by
  unfold checkIa5 at h
  split at h
  · assumption
  · simp at h

theorem ext_oids_no_panic (p : CertParams) (h : checkExtensionOids p = none)
    (hs : p.sans.all sanOk = true) :
    p.sans.any sanPanics = false ∧ p.ekus.any (fun e => !oidOk e.oid) = false ∧
    p.customExts.any (fun e => !oidOk e.oid) = false := by
  unfold checkExtensionOids at h
  rw [firstErr_none] at h
  rw [List.all_eq_true] at hs
  refine ⟨?_, ?_, ?_⟩
  · rw [Bool.eq_false_iff]; intro hany
    rw [List.any_eq_true] at hany
    obtain ⟨x, hx, hb⟩ := hany
    have h1 := h _ (List.mem_append_left _ (List.mem_append_left _ (List.mem_map_of_mem hx)))
    have h2 := hs x hx
    cases x <;> simp_all [sanPanics, sanOk]
    exact absurd (checkOid_none h1) (by simp [hb])
  · rw [Bool.eq_false_iff]; intro hany
    rw [List.any_eq_true] at hany
    obtain ⟨x, hx, hb⟩ := hany
    have h1 := h _ (List.mem_append_left _ (List.mem_append_right _ (List.mem_map_of_mem hx)))
    have := checkOid_none h1
    simp [this] at hb
  · rw [Bool.eq_false_iff]; intro hany
    rw [List.any_eq_true] at hany
    obtain ⟨x, hx, hb⟩ := hany
    have h1 := h _ (List.mem_append_right _ (List.mem_map_of_mem hx))
    have := checkOid_none h1
    simp [this] at hb

theorem subtree_no_panic (t : GeneralSubtree) (h : checkSubtree t = none) (hv : subtreeOk t = true) :
    subtreePanics t = false := by
  cases t with
  | rfc822 b => simp [subtreePanics, checkIa5_none (by simpa [checkSubtree] using h)]
  | dns b => simp [subtreePanics, checkIa5_none (by simpa [checkSubtree] using h)]
  | directoryName dn => exact name_no_panic dn (by simpa [checkSubtree] using h) (by simpa [subtreeOk] using hv)
  | ip c => rfl

/-- **certificates**: every parameter value yields `ok` or `err` -/
theorem cert_generation_never_panics (cfg : Config) (H : Hashes) (p : CertParams) (s : PubKey)
    (i : Issuer) (sign : Signer) (hp : paramsOk p = true) (hi : nameOk i.dn = true) :
    ∀ site, issueCert cfg H p s i sign ≠ .panic site := by
  intro site
  unfold issueCert
  cases hinv : certInvalid p i with
  | some e => simp
  | none =>
    simp only
    have hnp : certPanics p i = false := by
      unfold certInvalid at hinv
      rw [firstErr_none] at hinv
      unfold paramsOk at hp
      simp only [Bool.and_eq_true] at hp
      obtain ⟨⟨hp1, hp2⟩, hp3⟩ := hp
      have t1 := time_no_panic p.notBefore (hinv (checkTime p.notBefore) (by simp))
      have t2 := time_no_panic p.notAfter (hinv (checkTime p.notAfter) (by simp))
      have n1 := name_no_panic _ (hinv (checkName i.dn) (by simp)) hi
      have n2 := name_no_panic _ (hinv (checkName p.dn) (by simp)) hp1
      obtain ⟨x1, x2, x3⟩ := ext_oids_no_panic p (hinv (checkExtensionOids p) (by simp)) hp2
      have x4 : ncPanics p.nameConstraints = false := by
        cases hnc : p.nameConstraints with
        | none => rfl
        | some nc =>
          simp only [hnc] at hp3 hinv
          simp only [Bool.and_eq_true, List.all_eq_true] at hp3
          have hsub : ∀ t ∈ nc.permitted ++ nc.excluded, subtreePanics t = false := by
            intro t ht
            have hc := hinv (checkSubtree t) (by
              simp only [List.mem_append, List.mem_cons, List.mem_map, List.mem_flatMap]
              left; right; exact ⟨t, by simpa using ht, rfl⟩)
            exact subtree_no_panic t hc (by
              rcases List.mem_append.1 ht with h' | h'
              · exact hp3.1 t h'
              · exact hp3.2 t h')
          have a1 : nc.permitted.any subtreePanics = false := by
            rw [Bool.eq_false_iff]; intro h'; rw [List.any_eq_true] at h'
            obtain ⟨t, ht, hb⟩ := h'
            rw [hsub t (List.mem_append_left _ ht)] at hb; simp at hb
          have a2 : nc.excluded.any subtreePanics = false := by
            rw [Bool.eq_false_iff]; intro h'; rw [List.any_eq_true] at h'
            obtain ⟨t, ht, hb⟩ := h'
            rw [hsub t (List.mem_append_right _ ht)] at hb; simp at hb
          simp [ncPanics, a1, a2]
      have x5 : p.crlDps.any (fun dp => dp.uris.any (fun u => !isAscii u)) = false := by
        rw [Bool.eq_false_iff]; intro h'; rw [List.any_eq_true] at h'
        obtain ⟨dp, hdp, hb⟩ := h'
        rw [List.any_eq_true] at hb
        obtain ⟨u, hu, hb⟩ := hb
        have hc := hinv (checkIa5 u) (by
          simp only [List.mem_append, List.mem_flatMap, List.mem_map]
          right; exact ⟨dp, hdp, u, hu, rfl⟩)
        simp [checkIa5_none hc] at hb
      unfold certPanics extensionsPanic
      simp [t1, t2, n1, n2, x1, x2, x3, x4, x5]
    simp only [hnp]
    split <;> (try simp) <;> split <;> simp

/-- **certificate signing requests** -/
theorem csr_generation_never_panics (p : CertParams) (s : PubKey) (attrs : List Attribute)
    (sign : Signer) (hp : paramsOk p = true) :
    ∀ site, serializeRequest p s attrs sign ≠ .panic site := by
  intro site
  unfold serializeRequest
  split
  · simp
  · cases hinv : csrInvalid p attrs with
    | some e => simp
    | none =>
      simp only
      have hnp : csrPanics p attrs = false := by
        unfold csrInvalid at hinv
        rw [firstErr_none] at hinv
        unfold paramsOk at hp
        simp only [Bool.and_eq_true] at hp
        obtain ⟨⟨hp1, hp2⟩, _⟩ := hp
        have n2 := name_no_panic _ (hinv (checkName p.dn) (by simp)) hp1
        obtain ⟨x1, x2, x3⟩ := ext_oids_no_panic p (hinv (checkExtensionOids p) (by simp)) hp2
        have x4 : attrs.any (fun a => !oidOk a.oid) = false := by
          rw [Bool.eq_false_iff]; intro h'; rw [List.any_eq_true] at h'
          obtain ⟨a, ha, hb⟩ := h'
          have hc := hinv (checkOid a.oid) (by
            simp only [List.mem_append, List.mem_map]
            right; exact ⟨a, ha, rfl⟩)
          simp [checkOid_none hc] at hb
        unfold csrPanics csrExtRequestPanics
        simp [n2, x1, x2, x3, x4]
      simp only [hnp, Bool.false_eq_true, if_false]
      split <;> simp

/-- **revocation lists** -/
theorem crl_generation_never_panics (H : Hashes) (p : CrlParams) (i : Issuer) (sign : Signer)
    (hi : nameOk i.dn = true) :
    ∀ site, issueCrl H p i sign ≠ .panic site := by
  intro site
  unfold issueCrl
  split
  · simp
  · split
    · simp
    · cases hinv : crlInvalid p i with
      | some e => simp
      | none =>
        simp only
        have hnp : crlPanics p i = false := by
          unfold crlInvalid at hinv
          rw [firstErr_none] at hinv
          have n1 := name_no_panic _ (hinv (checkName i.dn) (by simp)) hi
          have t1 := time_no_panic p.thisUpdate (hinv (checkTime p.thisUpdate) (by simp))
          have t2 := time_no_panic p.nextUpdate (hinv (checkTime p.nextUpdate) (by simp))
          have r1 : p.revoked.any revokedPanics = false := by
            rw [Bool.eq_false_iff]; intro h'; rw [List.any_eq_true] at h'
            obtain ⟨r, hr, hb⟩ := h'
            have c1 := hinv (checkTime r.revocationTime) (by
              simp only [List.mem_append, List.mem_flatMap, List.mem_cons]
              right; exact ⟨r, hr, Or.inl rfl⟩)
            have q1 := time_no_panic _ c1
            unfold revokedPanics at hb
            cases hd : r.invalidityDate with
            | none => simp [hd, q1] at hb
            | some d =>
              have c2 := hinv (checkTime d) (by
                simp only [List.mem_append, List.mem_flatMap, List.mem_cons]
                right; exact ⟨r, hr, Or.inr (by simp [hd])⟩)
              have q2 := gentime_no_panic _ c2
              simp [hd, q1, q2] at hb
          have u1 : idpPanics p.idp = false := by
            cases hidp : p.idp with
            | none => rfl
            | some idp =>
              simp only [idpPanics]
              rw [Bool.eq_false_iff]; intro h'; rw [List.any_eq_true] at h'
              obtain ⟨u, hu, hb⟩ := h'
              have hc := hinv (checkIa5 u) (by
                simp only [hidp, List.mem_append, List.mem_map, List.mem_cons]
                left; left; right; exact ⟨u, hu, rfl⟩)
              simp [checkIa5_none hc] at hb
          unfold crlPanics
          simp [n1, t1, t2, r1, u1]
        simp only [hnp, Bool.false_eq_true, if_false]
        split <;> simp

/-! non-vacuity: a parameter set that used to panic (non-ASCII distribution-point URI, a
    one-arc custom extension OID, year −1) now yields an error, and satisfies the hypotheses -/
def badParams : CertParams :=
  { notBefore := ⟨-1, 1, 1, 0, 0, 0, 0, 0⟩, notAfter := ⟨4096, 1, 1, 0, 0, 0, 0, 0⟩,
    serial := none, sans := [], dn := DistinguishedName.new, isCa := .noCa, keyUsages := [],
    ekus := [], nameConstraints := none, crlDps := [⟨[[195, 188]]⟩],
    customExts := [⟨[1], false, [5, 0]⟩], useAki := false, keyIdMethod := .preSpecified [] }

example : paramsOk badParams = true := by decide
example : certInvalid badParams (selfIssuer badParams ⟨.ed25519, []⟩) = some .time := by decide

/-! ### the constructors around the parameter types (Model/Ctor.lean)

    `CidrSubnet::from_str`, `CertificateParams::new`, `SerialNumber::from` return a value or an
    error for every text (their model has no panic outcome, and the tie compares the outcome of
    the real function under `catch_unwind` on every offered text); the two constructors with an
    announced panic reach it exactly on the announced inputs. -/

/-- `new_acme_identifier` panics exactly on a digest that is not 32 octets long -/
theorem acme_panics_iff_wrong_length (d : Bytes) : (acmeIdentifier d).isNone ↔ d.length ≠ 32 := by
  unfold acmeIdentifier
  split <;> simp_all

/-- `date_time_ymd` panics exactly on an impossible calendar date -/
theorem ymd_panics_iff_impossible_date (y : Int) (m d : Nat) :
    (dateTimeYmd y m d).isNone ↔
      ¬ (-9999 ≤ y ∧ y ≤ 9999 ∧ 1 ≤ m ∧ m ≤ 12 ∧ 1 ≤ d ∧ d ≤ daysInMonth y m) := by
  unfold dateTimeYmd
  split <;> simp_all

/-- `CertificateParams::new` never fails in another way than `InvalidAsn1String`, and
    `CidrSubnet::from_str` has no failure but its `Err(())` -/
theorem params_new_only_error (crypto : Bool) (names : List Bytes) :
    (∃ p, paramsNew crypto names = .ok p) ∨ paramsNew crypto names = .error .invalidAsn1String := by
  cases h : paramsNew crypto names with
  | ok p => exact Or.inl ⟨p, rfl⟩
  | error e =>
    right
    unfold paramsNew at h
    cases hc : classifySans names with
    | ok s => simp [hc] at h
    | error e' =>
      simp only [hc, Except.error.injEq] at h
      subst h
      rw [(classifySans_error names e' hc).1]

end Rcgen.Theorems.C10
