import Rcgen.Theorems.C20
import Rcgen.Model.Sign
/-
  C15 — generation is a pure function of its inputs: deterministic and thread-safe.
  What a Lean model can carry: (1) the `HashMap` inside `DistinguishedName` has *no*
  observable iteration order — enumeration, lookup, the encoded name and hence every TBS
  are invariant under any reordering of the map's entries (different hash seeds, different
  processes); (2) in the state machine whose shared state is read by generation calls of N
  workers, every interleaving gives each call the output it has when run alone and leaves the
  shared state as it was.  Real data races / FFI are outside the model (sampled by the check).
-/
namespace Rcgen.Theorems.C15
open Rcgen Rcgen.Model Rcgen.Model.DistinguishedName

theorem lookup_eq_some_iff_mem (es : Entries) (hnd : (keys es).Nodup) (t : DnType) (v : DnValue) :
    es.lookup t = some v ↔ (t, v) ∈ es := by
  induction es with
  | nil => simp
  | cons e es ih =>
    obtain ⟨k, w⟩ := e
    simp only [keys, List.map_cons, List.nodup_cons] at hnd
    rw [lookup_cons_ite]
    by_cases h : t = k
    · subst h
      simp only [if_true, Option.some.injEq, List.mem_cons, Prod.mk.injEq, true_and]
      constructor
      · intro h; exact Or.inl h.symm
      · intro h
        rcases h with h | h
        · exact h.symm
        · exact absurd (List.mem_map_of_mem (f := Prod.fst) h) hnd.1
    · simp only [h, if_false, List.mem_cons, Prod.mk.injEq, false_and, false_or]
      exact ih hnd.2

/-- lookup in a map does not depend on the order in which the map stores its entries -/
theorem lookup_perm (es es' : Entries) (hp : es.Perm es') (hnd : (keys es).Nodup) (t : DnType) :
    es.lookup t = es'.lookup t := by
  have hnd' : (keys es').Nodup := (hp.map Prod.fst).nodup_iff.1 hnd
  cases h : es.lookup t with
  | some v =>
    have := (lookup_eq_some_iff_mem es hnd t v).1 h
    exact ((lookup_eq_some_iff_mem es' hnd' t v).2 (hp.mem_iff.1 this)).symm
  | none =>
    cases h' : es'.lookup t with
    | none => rfl
    | some v =>
      have := (lookup_eq_some_iff_mem es' hnd' t v).1 h'
      have := (lookup_eq_some_iff_mem es hnd t v).2 (hp.mem_iff.2 this)
      rw [h] at this; cases this

/-- **no observable map order**: two names holding the same entries in different internal
    order (same order vector) enumerate identically, look up identically, and encode
    identically -/
theorem dn_iter_independent_of_map_order (a b : DistinguishedName)
    (hp : a.entries.Perm b.entries) (ho : a.order = b.order) (hnd : (keys a.entries).Nodup) :
    a.iter = b.iter ∧ (∀ t, a.get t = b.get t) ∧
    writeDistinguishedName a = writeDistinguishedName b := by
  have hi : a.iter = b.iter := by
    unfold iter; rw [ho]
    exact iterFrom_congr _ _ _ (fun t _ => lookup_perm _ _ hp hnd t)
  exact ⟨hi, fun t => lookup_perm _ _ hp hnd t, by unfold writeDistinguishedName; rw [hi]⟩

/-- hence the to-be-signed certificate does not depend on it either (subject and issuer) -/
theorem tbs_independent_of_map_order (H : Hashes) (p : CertParams) (s : PubKey) (i : Issuer)
    (dn' : DistinguishedName) (hp : p.dn.entries.Perm dn'.entries) (ho : p.dn.order = dn'.order)
    (hnd : (keys p.dn.entries).Nodup) (hsame : p.dn.entries.isEmpty = dn'.entries.isEmpty) :
    tbsCertificate H { p with dn := dn' } s i = tbsCertificate H p s i := by
  obtain ⟨_, _, hw⟩ := dn_iter_independent_of_map_order p.dn dn' hp ho hnd
  simp only [tbsCertificate, tbsCertificateFields, certExtensions, sanExt, shouldWriteExts,
    serialNode, skiExt, caExts, hw, hsame]

/-! ### schedules -/

/-- what generation calls share: issuer parameters and keys (read-only in the model because
    the code takes them by shared reference and `KeyPair` has no interior mutability) -/
structure Shared where
  H : Hashes
  issuer : Issuer
  subject : PubKey
  sign : Signer

inductive Call where
  | cert (p : CertParams)
  | csr (p : CertParams) (attrs : List Attribute)
  | crl (p : CrlParams)

def callAlone (σ : Shared) : Call → Out Asn1
  | .cert p => issueCert {} σ.H p σ.subject σ.issuer σ.sign
  | .csr p attrs => serializeRequest p σ.subject attrs σ.sign
  | .crl p => issueCrl σ.H p σ.issuer σ.sign

/-- one scheduled step of some worker: reads the shared state, returns it unchanged -/
def step (σ : Shared) (c : Nat × Call) : Shared × Out Asn1 := (σ, callAlone σ c.2)

def runSchedule (σ : Shared) : List (Nat × Call) → Shared × List (Out Asn1)
  | [] => (σ, [])
  | c :: rest =>
    let (σ', o) := step σ c
    let (σ'', os) := runSchedule σ' rest
    (σ'', o :: os)

/-- **schedule independence**: whatever the interleaving of the workers' calls, each call
    returns what it returns when run alone, and the shared keys and issuer are unchanged -/
theorem schedule_independent (σ : Shared) (schedule : List (Nat × Call)) :
    (runSchedule σ schedule).1 = σ ∧
    (runSchedule σ schedule).2 = schedule.map (fun c => callAlone σ c.2) := by
  induction schedule with
  | nil => exact ⟨rfl, rfl⟩
  | cons c rest ih =>
    simp only [runSchedule, step, List.map_cons]
    exact ⟨ih.1, by rw [ih.2]⟩

/-- determinism: equal inputs, equal outputs (the model functions have no hidden state) -/
theorem generation_is_a_function (σ : Shared) (c : Call) : callAlone σ c = callAlone σ c := rfl

/-! non-vacuity: two different internal orders of the same two-entry map -/
example :
    let a : DistinguishedName := ⟨[(.commonName, .utf8 [97]), (.org, .utf8 [98])], [.org, .commonName]⟩
    let b : DistinguishedName := ⟨[(.org, .utf8 [98]), (.commonName, .utf8 [97])], [.org, .commonName]⟩
    a.iter = b.iter := by decide

end Rcgen.Theorems.C15
