import Rcgen.Proofs.Ber
import Rcgen.Proofs.DerRoundTrip
import Rcgen.Theorems.C06
/-
  C06, the tolerant reader (same namespace as C06.lean).  rcgen reads requests with
  x509-parser, which takes extension values in BER length forms the strict decoder of the
  specification refuses.  For such requests the question "carried over whole, or refused" is put
  by `Spec.c06IssueClausesBer`, which reads both artefacts with `decodeBer`.  What is proved about
  that reader: it is an extension of the strict one — on anything the strict decoder reads it
  returns the same tree, element for element — so using it where the strict decoder has no
  answer changes no verdict the strict decoder gives.
-/
namespace Rcgen.Theorems.C06
open Rcgen Rcgen.Spec

/-- **the tolerant reader extends the strict decoder**: a byte string that is the DER encoding of
    a tree is read by the tolerant reader as that tree (whole strings, single elements with their
    remainder, and lists of elements) -/
theorem tolerant_reader_extends_strict :
    (∀ b t, decodeAll b = some t → decodeAllBer b = some t) ∧
    (∀ fuel b r, decode fuel b = some r → decodeBer fuel b = some r) ∧
    (∀ fuel b ts, decodeList fuel b = some ts → decodeListBer fuel b = some ts) :=
  ⟨Proofs.Ber.decodeAll_sub, Proofs.Ber.decode_sub, Proofs.Ber.decodeList_sub⟩

/-- ... and whatever rcgen itself writes is read by it: the encoding of any well-formed tree
    (the generic DER round trip composed with the extension) -/
theorem tolerant_reader_reads_every_encoding (t : Asn1) (h : decodeAll (encode t) = some t) :
    decodeAllBer (encode t) = some t := Proofs.Ber.decodeAll_sub _ _ h

/-- every element of a DER string of well-formed elements is reported, in order -/
theorem elements_of_encoding (ts : List Asn1) (h : WFList ts) :
    elementsBer (encodeList ts) = some ts := by
  unfold elementsBer
  apply Proofs.Ber.decodeList_sub
  apply Rcgen.decodeList_encodeList ts h
  have := Rcgen.sizeList_le_encodeList ts h
  omega

/-- **on what rcgen writes the tolerant reading of an extended key usage is the list written**:
    for the value `SEQUENCE OF OBJECT IDENTIFIER` over any identifiers (any number, of any
    length below the representable bound), the purposes the tolerant reader reports are exactly
    those identifiers, duplicates dropped -/
theorem purposes_of_written_value (cs : List Bytes)
    (hc : ∀ c ∈ cs, c.length < 256 ^ 126)
    (hlen : (encodeList (cs.map (fun c => Asn1.prim 0 6 c))).length < 256 ^ 126) :
    berPurposes [encode (.cons 0 16 (cs.map (fun c => Asn1.prim 0 6 c)))] = some cs.eraseDups := by
  have hwfl : WFList (cs.map (fun c => Asn1.prim 0 6 c)) := by
    induction cs with
    | nil => simp [WFList]
    | cons c cs ih =>
      simp only [List.map_cons, WFList, Asn1.WF]
      exact ⟨⟨by decide, by decide, hc c (by simp)⟩, ih (fun c' h' => hc c' (by simp [h']))
        (by
          simp only [List.map_cons, encodeList, List.length_append] at hlen
          omega)⟩
  have hwf : WFList [Asn1.cons 0 16 (cs.map (fun c => Asn1.prim 0 6 c))] := by
    simp only [WFList, Asn1.WF, and_true]
    exact ⟨by decide, by decide, hlen, hwfl⟩
  have he := elements_of_encoding _ hwf
  simp only [encodeList, List.append_nil] at he
  have hm : ∀ (l : List Bytes), (l.map (fun c => Asn1.prim 0 6 c)).mapM oidContentOf = some l := by
    intro l
    induction l with
    | nil => rfl
    | cons c l ih => simp only [List.map_cons, List.mapM_cons, ih, oidContentOf, bind, Option.bind, pure]
  unfold berPurposes
  simp only [List.mapM_cons, List.mapM_nil, he, bind, Option.bind, pure]
  rw [hm cs]
  simp

example : berPurposes [encode (.cons 0 16 [Asn1.prim 0 6 [0x2b, 6, 1, 5, 5, 7, 3, 1], Asn1.prim 0 6 [0x2b, 6, 1, 5, 5, 7, 3, 2],
      Asn1.prim 0 6 [0x2b, 6, 1, 5, 5, 7, 3, 1]])] =
    some [[0x2b, 6, 1, 5, 5, 7, 3, 1], [0x2b, 6, 1, 5, 5, 7, 3, 2]] := by decide

/-! non-vacuity and the difference: SEQUENCE { OID 1.3.6.1.5.5.7.3.1 } with its length in the
    long form is read by the tolerant reader and not by the strict one; two elements in one value
    are reported as two -/
example : decodeAll [0x30, 0x81, 0x0a, 0x06, 0x08, 0x2b, 0x06, 0x01, 0x05, 0x05, 0x07, 0x03, 0x01] = none := by
  decide
example : decodeAllBer [0x30, 0x81, 0x0a, 0x06, 0x08, 0x2b, 0x06, 0x01, 0x05, 0x05, 0x07, 0x03, 0x01] =
    some (.cons 0 16 [.prim 0 6 [0x2b, 0x06, 0x01, 0x05, 0x05, 0x07, 0x03, 0x01]]) := by rfl
example : (elementsBer [0x30, 0x02, 0x05, 0x00, 0x30, 0x00]).map List.length = some 2 := by decide
example : berPurposes [[0x30, 0x0a, 0x06, 0x08, 0x2b, 0x06, 0x01, 0x05, 0x05, 0x07, 0x03, 0x01,
                        0x30, 0x0a, 0x06, 0x08, 0x2b, 0x06, 0x01, 0x05, 0x05, 0x07, 0x03, 0x02]] = none := by
  decide

end Rcgen.Theorems.C06
