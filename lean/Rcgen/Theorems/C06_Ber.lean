import Rcgen.Proofs.Ber
import Rcgen.Theorems.C06
/-
  C06, the tolerant reader (same namespace as C06.lean).  rcgen reads requests with
  x509-parser, which takes extension values in BER length forms the strict decoder of the
  specification refuses.  For such requests the question "carried over whole, or refused" is put
  by `Spec.c06IssueClausesBer`, which reads both artefacts with `decodeBer`.  What is proved about
  that reader: it is an extension of the strict one — on anything the strict decoder reads it
  returns the same tree, element for element — so using it where the strict decoder has no
  answer changes no verdict the strict decoder gives.
-/
namespace Rcgen.Theorems.C06
open Rcgen Rcgen.Spec

/-- **the tolerant reader extends the strict decoder**: a byte string that is the DER encoding of
    a tree is read by the tolerant reader as that tree (whole strings, single elements with their
    remainder, and lists of elements) -/
theorem tolerant_reader_extends_strict :
    (∀ b t, decodeAll b = some t → decodeAllBer b = some t) ∧
    (∀ fuel b r, decode fuel b = some r → decodeBer fuel b = some r) ∧
    (∀ fuel b ts, decodeList fuel b = some ts → decodeListBer fuel b = some ts) :=
  ⟨Proofs.Ber.decodeAll_sub, Proofs.Ber.decode_sub, Proofs.Ber.decodeList_sub⟩

/-- ... and whatever rcgen itself writes is read by it: the encoding of any well-formed tree
    (the generic DER round trip composed with the extension) -/
theorem tolerant_reader_reads_every_encoding (t : Asn1) (h : decodeAll (encode t) = some t) :
    decodeAllBer (encode t) = some t := Proofs.Ber.decodeAll_sub _ _ h

/-! non-vacuity and the difference: SEQUENCE { OID 1.3.6.1.5.5.7.3.1 } with its length in the
    long form is read by the tolerant reader and not by the strict one; two elements in one value
    are reported as two -/
example : decodeAll [0x30, 0x81, 0x0a, 0x06, 0x08, 0x2b, 0x06, 0x01, 0x05, 0x05, 0x07, 0x03, 0x01] = none := by
  decide
example : decodeAllBer [0x30, 0x81, 0x0a, 0x06, 0x08, 0x2b, 0x06, 0x01, 0x05, 0x05, 0x07, 0x03, 0x01] =
    some (.cons 0 16 [.prim 0 6 [0x2b, 0x06, 0x01, 0x05, 0x05, 0x07, 0x03, 0x01]]) := by rfl
example : (elementsBer [0x30, 0x02, 0x05, 0x00, 0x30, 0x00]).map List.length = some 2 := by decide
example : berPurposes [[0x30, 0x0a, 0x06, 0x08, 0x2b, 0x06, 0x01, 0x05, 0x05, 0x07, 0x03, 0x01,
                        0x30, 0x0a, 0x06, 0x08, 0x2b, 0x06, 0x01, 0x05, 0x05, 0x07, 0x03, 0x02]] = none := by
  decide

end Rcgen.Theorems.C06
