import Rcgen.Model.CsrParse
import Rcgen.Proofs.DerRoundTrip
/-
  C06 — CSR acceptance is sound and issuance binds the requester's key.
  Model: `parseCsr` (Model/CsrParse.lean) = csr.rs `from_der` after the third-party parse; the
  signature check is an abstract `verify spki info alg sig`.  Unforgeability ("every
  modification is rejected") is cryptography: sampled by the mutation sweep, not proved.
-/
namespace Rcgen.Theorems.C06
open Rcgen Rcgen.Model Rcgen.Spec

/-- **acceptance implies verification**: a request is accepted only if `verify` succeeded on
    the embedded SubjectPublicKeyInfo, the exact certificationRequestInfo bytes of the input,
    the outer algorithm and the signature bits of the input -/
theorem accept_implies_verified (p521 crypto : Bool) (verify : Bytes → Bytes → Bytes → Bytes → Bool)
    (der : Bytes) (r : CsrParsed) (h : parseCsr p521 crypto verify der = .ok r) :
    ∃ info alg sig i, splitSigned der = some (info, alg, sig) ∧ decodeCsrInfo info = some i ∧
      verify i.spki info alg sig = true := by
  unfold parseCsr at h
  cases hs : splitSigned der with
  | none => simp [hs] at h
  | some t =>
    obtain ⟨info, alg, sig⟩ := t
    simp only [hs] at h
    cases hd : decodeCsrInfo info with
    | none => simp [hd] at h
    | some i =>
      simp only [hd, Option.map_some, Option.getD_some] at h
      cases hp : spkiParts i.spki with
      | none => simp [hp] at h
      | some parts =>
        simp only [hp] at h
        by_cases hv : verify i.spki info alg sig = true
        · exact ⟨info, alg, sig, i, rfl, hd, hv⟩
        · simp [hv] at h

/-- a request whose signature does not verify is rejected with an error -/
theorem bad_signature_rejected (p521 crypto : Bool) (der : Bytes) :
    ∀ r, parseCsr p521 crypto (fun _ _ _ _ => false) der ≠ .ok r := by
  intro r h
  obtain ⟨_, _, _, _, _, _, hv⟩ := accept_implies_verified _ _ _ _ _ h
  cases hv

/-- the key algorithm recorded for an accepted request always describes the embedded key: its
    SubjectPublicKeyInfo AlgorithmIdentifier is byte-identical to the request's -/
theorem key_alg_describes_key (p521 : Bool) (sigAlg alg : SigAlg) (spkiAlg : Bytes)
    (h : csrKeyAlg p521 sigAlg spkiAlg = some alg) : encode (spkiAlgIdent alg) = spkiAlg := by
  unfold csrKeyAlg at h
  split at h
  · rename_i he
    injection h with h; subst h
    simpa using he
  · have := List.find?_some h
    simpa using this

/-- **issued SubjectPublicKeyInfo identical**: the SubjectPublicKeyInfo written into a
    certificate issued for (algorithm, key bits) of an accepted request is, byte for byte, the
    request's own (an AlgorithmIdentifier `a` and a BIT STRING of whole octets `key`) -/
theorem issued_spki_identical (alg : SigAlg) (a : Asn1) (key : Bytes)
    (halg : encode (spkiAlgIdent alg) = encode a) :
    spkiDer { alg := alg, raw := key } = encode (.cons 0 16 [a, .prim 0 3 (0 :: key)]) := by
  unfold spkiDer spkiNode
  simp only [Asn1.seq, encode, encodeList, Asn1.bitStringOctets, Asn1.bitString,
    bitStringContent_octets, halg]

/-- P-384 key signed with ecdsa-with-SHA256: the recorded key algorithm is the P-384 one -/
theorem p384_signed_with_sha256 :
    csrKeyAlg false .ecdsaP256 (encode (spkiAlgIdent .ecdsaP384)) = some .ecdsaP384 := by decide

/-- **nothing partially honoured**: if the requested extensions are carried over at all, every
    one of them is a key usage, a subject alternative name, or an extended key usage naming
    standard purposes only -/
theorem unsupported_rejected (p p' : CertParams) (exts : List Ext)
    (h : applyRequested p exts = .ok p') :
    ∀ e ∈ exts, (∃ b, e.value = .keyUsage b) ∨ (∃ n, e.value = .san n) ∨
      (∃ o, e.value = .eku o ∧ o.all (fun x => stdEkus.any (fun s => s.oid == x)) = true) := by
  induction exts generalizing p with
  | nil => intro e he; simp at he
  | cons x rest ih =>
    intro e he
    simp only [applyRequested] at h
    cases hv : x.value with
    | keyUsage bits =>
      simp only [hv] at h
      rcases List.mem_cons.1 he with rfl | hr
      · exact Or.inl ⟨_, hv⟩
      · exact ih _ h e hr
    | san names =>
      simp only [hv] at h
      cases hs : importSans names with
      | error x => simp [hs] at h
      | ok s =>
        simp only [hs] at h
        rcases List.mem_cons.1 he with rfl | hr
        · exact Or.inr (Or.inl ⟨_, hv⟩)
        · exact ih _ h e hr
    | eku oids =>
      simp only [hv] at h
      split at h
      · rename_i hall
        rcases List.mem_cons.1 he with rfl | hr
        · exact Or.inr (Or.inr ⟨_, hv, hall⟩)
        · exact ih _ h e hr
      · cases h
    | _ => simp [hv] at h

/-- key usages are carried over as the set of named bits requested -/
theorem carries_key_usage (p p' : CertParams) (bits : List Nat) (oid : List Nat) (c : Bool)
    (h : applyRequested p [⟨oid, c, .keyUsage bits⟩] = .ok p') :
    p'.keyUsages = importKeyUsages bits ∧ p'.dn = p.dn ∧ p'.sans = p.sans := by
  simp only [applyRequested] at h
  injection h with h
  subst h
  exact ⟨rfl, rfl, rfl⟩

/-! non-vacuity -/
example : applyRequested defaultParams [⟨[2, 5, 29, 19], true, .basicConstraints true none⟩] =
    .error .unsupportedExtension := rfl

end Rcgen.Theorems.C06
