import Rcgen.Proofs.CsrIssue
import Rcgen.Model.CsrVerify
/-
  C06 — CSR acceptance is sound and issuance binds the requester's key.
  Model: `parseCsr` (Model/CsrParse.lean) = csr.rs `from_der` after the third-party parse; the
  signature check is an abstract `verify spki info alg sig`.  Unforgeability ("every
  modification is rejected") is cryptography: sampled by the mutation sweep, not proved.
-/
namespace Rcgen.Theorems.C06
open Rcgen Rcgen.Model Rcgen.Spec

/-- what acceptance of a request establishes, read off the parser's own steps
    (`Proofs.CsrAccept.Accepted`: the split, the decoded info, the verifier's verdict, the
    algorithms, the imported name, the paired-up extensions, the loop's result, the
    SubjectPublicKeyInfo comparison) -/
abbrev Accepted := Proofs.CsrAccept.Accepted

/-- every accepted request went through every gate of `from_der` -/
theorem accepted_steps (p521 crypto : Bool) (verify : Bytes → Bytes → Bytes → Bytes → Bool)
    (der : Bytes) (r : CsrParsed) (h : parseCsr p521 crypto verify der = .ok r) :
    Nonempty (Accepted p521 crypto verify der r) :=
  Proofs.CsrAccept.accepted_steps p521 crypto verify der r h

/-- **acceptance implies verification**: a request is accepted only if `verify` succeeded on
    the embedded SubjectPublicKeyInfo, the exact certificationRequestInfo bytes of the input,
    the outer algorithm and the signature bits of the input -/
theorem accept_implies_verified (p521 crypto : Bool) (verify : Bytes → Bytes → Bytes → Bytes → Bool)
    (der : Bytes) (r : CsrParsed) (h : parseCsr p521 crypto verify der = .ok r) :
    ∃ info alg sig i, splitSigned der = some (info, alg, sig) ∧ decodeCsrInfo info = some i ∧
      verify i.spki info alg sig = true := by
  obtain ⟨a⟩ := accepted_steps _ _ _ _ _ h
  exact ⟨a.info, a.algDer, a.sig, a.i, a.hsplit, a.hinfo, a.hverify⟩

/-- a request whose signature does not verify is rejected with an error -/
theorem bad_signature_rejected (p521 crypto : Bool) (der : Bytes) :
    ∀ r, parseCsr p521 crypto (fun _ _ _ _ => false) der ≠ .ok r := by
  intro r h
  obtain ⟨_, _, _, _, _, _, hv⟩ := accept_implies_verified _ _ _ _ _ h
  cases hv

/-- **the signature algorithm is one for the embedded key's kind**: the third-party verifier
    picks the scheme from the signature identifier and runs it on the key bits alone; an accepted
    request's identifier names an algorithm of the key type (RSA, EC, Ed25519) that the
    SubjectPublicKeyInfo declares, so what verified is a signature under the embedded key -/
theorem accepted_key_type_matches (p521 crypto : Bool) (verify : Bytes → Bytes → Bytes → Bytes → Bool)
    (der : Bytes) (r : CsrParsed) (h : parseCsr p521 crypto verify der = .ok r) :
    ∃ info alg sig oid sigAlg, splitSigned der = some (info, alg, sig) ∧ algIdOid alg = some oid ∧
      sigAlgFromOid p521 oid = some sigAlg ∧ r.key.alg.keyOids.head? = sigAlg.keyOids.head? := by
  obtain ⟨a⟩ := accepted_steps _ _ _ _ _ h
  refine ⟨a.info, a.algDer, a.sig, a.oid, a.sigAlg, a.hsplit, a.hoid, a.hsig, ?_⟩
  have := a.hsame
  unfold SigAlg.sameKeyType at this
  simpa using this

/-- **the issued SubjectPublicKeyInfo is the request's, byte for byte**: for every accepted
    request, the SubjectPublicKeyInfo rcgen writes for (algorithm, key bits) of the parsed
    request — which is field 6 of every certificate issued from it — is exactly the byte string
    that stands in the request, whatever the request's encoding was -/
theorem accepted_spki_identical (p521 crypto : Bool) (verify : Bytes → Bytes → Bytes → Bytes → Bool)
    (der : Bytes) (r : CsrParsed) (h : parseCsr p521 crypto verify der = .ok r)
    (H : Hashes) (issuer : Issuer) :
    ∃ info alg sig i, splitSigned der = some (info, alg, sig) ∧ decodeCsrInfo info = some i ∧
      ((tbsCertificateFields H r.params r.key issuer)[6]?).map encode = some i.spki := by
  obtain ⟨a⟩ := accepted_steps _ _ _ _ _ h
  refine ⟨a.info, a.algDer, a.sig, a.i, a.hsplit, a.hinfo, ?_⟩
  rw [← a.hspki]
  rfl

/-- the key algorithm recorded for an accepted request always describes the embedded key: its
    SubjectPublicKeyInfo AlgorithmIdentifier is byte-identical to the request's -/
theorem key_alg_describes_key (p521 : Bool) (sigAlg alg : SigAlg) (spkiAlg : Bytes)
    (h : csrKeyAlg p521 sigAlg spkiAlg = some alg) : encode (spkiAlgIdent alg) = spkiAlg := by
  unfold csrKeyAlg at h
  split at h
  · rename_i he
    injection h with h; subst h
    simpa using he
  · have := List.find?_some h
    simpa using this

/-- **issued SubjectPublicKeyInfo identical**: the SubjectPublicKeyInfo written into a
    certificate issued for (algorithm, key bits) of an accepted request is, byte for byte, the
    request's own (an AlgorithmIdentifier `a` and a BIT STRING of whole octets `key`) -/
theorem issued_spki_identical (alg : SigAlg) (a : Asn1) (key : Bytes)
    (halg : encode (spkiAlgIdent alg) = encode a) :
    spkiDer { alg := alg, raw := key } = encode (.cons 0 16 [a, .prim 0 3 (0 :: key)]) := by
  unfold spkiDer spkiNode
  simp only [Asn1.seq, encode, encodeList, Asn1.bitStringOctets, Asn1.bitString,
    bitStringContent_octets, halg]

/-- P-384 key signed with ecdsa-with-SHA256: the recorded key algorithm is the P-384 one -/
theorem p384_signed_with_sha256 :
    csrKeyAlg false .ecdsaP256 (encode (spkiAlgIdent .ecdsaP384)) = some .ecdsaP384 := by decide

/-- **nothing partially honoured**: if the requested extensions are carried over at all, every
    one of them is a key usage, a subject alternative name, or an extended key usage naming
    standard purposes only -/
theorem unsupported_rejected (p p' : CertParams) (seen : List (List Nat)) (exts : List (Ext × Bytes))
    (h : applyRequested p seen exts = .ok p') :
    ∀ e ∈ exts, (∃ b, e.1.value = .keyUsage b) ∨ (∃ n, e.1.value = .san n) ∨
      (∃ o, e.1.value = .eku o ∧ o.all (fun x => stdEkus.any (fun s => s.oid == x)) = true) :=
  Proofs.CsrAccept.unsupported_rejected p p' seen exts h

/-- **no extension is asked for twice**: the identifiers of the extensions of an accepted
    request are pairwise different (and different from the ones already seen), so none replaces
    an earlier one -/
theorem no_repeated_extension (p p' : CertParams) (seen : List (List Nat)) (exts : List (Ext × Bytes))
    (h : applyRequested p seen exts = .ok p') :
    (exts.map (·.1.oid)).Nodup ∧ ∀ e ∈ exts, e.1.oid ∉ seen := by
  induction exts generalizing p seen with
  | nil => simp
  | cons x rest ih =>
    obtain ⟨x, raw⟩ := x
    simp only [applyRequested] at h
    split at h
    · cases h
    · rename_i hseen
      have hseen' : x.oid ∉ seen := by simpa using hseen
      have step : ∀ q, applyRequested q (x.oid :: seen) rest = .ok p' →
          ((((x, raw) :: rest).map (·.1.oid)).Nodup ∧ ∀ e ∈ (x, raw) :: rest, e.1.oid ∉ seen) := by
        intro q hq
        obtain ⟨hnd, hns⟩ := ih q (x.oid :: seen) hq
        refine ⟨?_, ?_⟩
        · simp only [List.map_cons, List.nodup_cons]
          refine ⟨?_, hnd⟩
          intro hm
          obtain ⟨e, he, heq⟩ := List.mem_map.1 hm
          exact hns e he (by rw [heq]; exact List.mem_cons_self)
        · intro e he
          rcases List.mem_cons.1 he with rfl | hr
          · exact hseen'
          · intro hin; exact hns e hr (List.mem_cons_of_mem _ hin)
      cases hv : x.value with
      | keyUsage bits =>
        simp only [hv] at h
        split at h
        · cases h
        · exact step _ h
      | san names =>
        simp only [hv] at h
        cases hs : importSans names with
        | error x => simp [hs] at h
        | ok s =>
          simp only [hs] at h
          split at h
          · cases h
          · exact step _ h
      | eku oids =>
        simp only [hv] at h
        split at h
        · exact step _ h
        · cases h
      | _ => simp [hv] at h

/-- **at most one extension request, with one value**: an accepted request has no
    extensionRequest attribute (then nothing is requested), or exactly one -/
theorem at_most_one_request (attrs : List CsrAttr) (exts : List (Ext × Bytes))
    (h : csrExtensionRequests attrs = .ok exts) :
    (attrs.filter (fun a => a.oid == extensionRequestOid) = [] ∧ exts = []) ∨
    (∃ a dec raws, attrs.filter (fun a => a.oid == extensionRequestOid) = [a] ∧
      decodeExtensionRequest a.values = some dec ∧ rawExtValues a.values = some raws ∧
      exts = dec.zip raws) :=
  Proofs.CsrAccept.at_most_one_request attrs exts h

/-- **key usages are carried over exactly**: the requested KeyUsage value is, byte for byte, the
    value rcgen writes for the usages it recorded — so no requested bit is dropped and the
    issued extension equals the requested one; a request for no usage at all is refused -/
theorem carries_key_usage (p p' : CertParams) (seen : List (List Nat)) (bits : List Nat)
    (oid : List Nat) (c : Bool) (raw : Bytes)
    (h : applyRequested p seen [(⟨oid, c, .keyUsage bits⟩, raw)] = .ok p') :
    p'.keyUsages = importKeyUsages bits ∧ p'.keyUsages ≠ [] ∧
    encode (keyUsageValue p'.keyUsages) = raw ∧ p'.dn = p.dn ∧ p'.sans = p.sans := by
  simp only [applyRequested] at h
  split at h
  · cases h
  · split at h
    · cases h
    · rename_i hc
      injection h with h
      subst h
      simp only [Bool.or_eq_true, List.isEmpty_iff, bne_iff_ne, ne_eq, not_or, Decidable.not_not] at hc
      exact ⟨rfl, hc.1, hc.2, rfl, rfl⟩

/-- **subject alternative names are carried over exactly**: at least one name, appended in the
    order requested, and the requested value is byte for byte the one rcgen writes for them -/
theorem carries_san (p p' : CertParams) (seen : List (List Nat)) (names : List GName)
    (oid : List Nat) (c : Bool) (raw : Bytes)
    (h : applyRequested p seen [(⟨oid, c, .san names⟩, raw)] = .ok p') :
    ∃ s, importSans names = .ok s ∧ s ≠ [] ∧ encode (.seq (s.map sanNode)) = raw ∧
      p'.sans = p.sans ++ s ∧ p'.keyUsages = p.keyUsages := by
  obtain ⟨s, h1, h2, h3⟩ := Proofs.CsrRoundTrip.ar_san_guard _ _ _ _ _ _ _ _ h
  obtain ⟨s', h1', h4⟩ := Proofs.CsrRoundTrip.ar_san _ _ _ _ _ _ _ _ h
  have : s' = s := by rw [h1] at h1'; injection h1' with e; exact e.symm
  subst this
  have := Proofs.CsrRoundTrip.ar_nil _ _ _ h4
  subst this
  exact ⟨s', h1, h2, h3, rfl, rfl⟩

/-- **issuance carries the request, and nothing but the request.**  For every byte string the
    parser accepts (rcgen's own requests and anybody else's), every third-party verifier, every
    issuer and hash family: when a certificate is issued from the parsed request, the clause
    list `Spec.c06IssueClauses` — which reads only the two artefacts with the RFC 2986 / RFC 5280
    decoders — is empty: the issued subject is the requested subject; the subject alternative
    names and the KeyUsage value are the ones in the request (all of them, from every extension
    request the request holds); the extended key usages are the same set; and the request asks
    for no other extension and no non-standard purpose.  Together with
    `accepted_spki_identical` this is the second half of the property. -/
theorem issued_carries_request (p521 crypto : Bool) (verify : Bytes → Bytes → Bytes → Bytes → Bool)
    (der : Bytes) (r : CsrParsed) (h : parseCsr p521 crypto verify der = .ok r)
    (H : Hashes) (issuer : Issuer)
    (hinv : certInvalid r.params issuer = none)
    (hnp : certPanics r.params issuer = false)
    (hsize : (encode (tbsCertificate H r.params r.key issuer)).length < 256 ^ 126) :
    Spec.c06IssueClauses der (encode (tbsCertificate H r.params r.key issuer)) = [] :=
  Proofs.CsrIssue.issued_clauses_hold p521 crypto verify der r h H issuer hinv hnp hsize

/-! non-vacuity -/
example : applyRequested defaultParams [] [(⟨[2, 5, 29, 19], true, .basicConstraints true none⟩, [48, 3, 1, 1, 255])] =
    .error .unsupportedExtension := rfl
-- key usage {digitalSignature}: accepted with the minimal encoding, refused with a trailing zero
-- octet, with an unnamed bit (bit 9), or empty
example : (applyRequested defaultParams [] [(⟨[2, 5, 29, 15], true, .keyUsage [0]⟩, [3, 2, 7, 128])]).toOption.map (·.keyUsages)
    = some [.digitalSignature] := by decide
example : applyRequested defaultParams [] [(⟨[2, 5, 29, 15], true, .keyUsage [0]⟩, [3, 3, 0, 128, 0])] =
    .error .unsupportedExtension := by rfl
example : applyRequested defaultParams [] [(⟨[2, 5, 29, 15], true, .keyUsage [0, 9]⟩, [3, 3, 6, 128, 64])] =
    .error .unsupportedExtension := by rfl
example : applyRequested defaultParams [] [(⟨[2, 5, 29, 15], true, .keyUsage []⟩, [3, 1, 0])] =
    .error .unsupportedExtension := by rfl
-- the same extension twice
example : applyRequested defaultParams [] [(⟨[2, 5, 29, 15], true, .keyUsage [0]⟩, [3, 2, 7, 128]),
    (⟨[2, 5, 29, 15], true, .keyUsage [0]⟩, [3, 2, 7, 128])] = .error .unsupportedExtension := by rfl
-- an Ed25519 signature identifier over a key declared as RSA is not a signature under that key
example : SigAlg.sameKeyType .rsaSha256 .ed25519 = false := by decide
example : SigAlg.sameKeyType .ecdsaP384 .ecdsaP256 = true := by decide

/-! non-vacuity of `issued_carries_request`: a request with a name, two alternative names, key
    usages and two purposes is accepted, and issuing from it meets the hypotheses -/
def exReq : Spec.CsrInputs :=
  { p := { (default : CertParams) with
           sans := [.dns [0x61], .ip [10, 0, 0, 1]],
           keyUsages := [.keyEncipherment, .digitalSignature],
           ekus := [.clientAuth, .serverAuth],
           dn := ((DistinguishedName.new.push .org (.printable [0x4f])).push .commonName (.utf8 [0x61])) },
    subject := ⟨.ed25519, List.replicate 32 7⟩, attrs := [] }
def exIssuer : Issuer :=
  { dn := DistinguishedName.new.push .commonName (.utf8 [0x43, 0x41]), keyIdMethod := .sha256,
    keyUsages := [.keyCertSign], key := ⟨.ecdsaP256, [4, 1, 2]⟩ }

example : (match parseCsr false true (fun _ _ _ _ => true)
      (encode (Proofs.Canon.Csr.signedCsr exReq (List.replicate 64 9))) with
    | .ok r => certInvalid r.params exIssuer == none && !certPanics r.params exIssuer &&
        r.params.sans == exReq.p.sans
    | .error _ => false) = true := by decide +kernel

/-! ### which verifier's word is taken (Model/CsrVerify.lean = csr.rs:108-123, `verify_ecdsa_p521`) -/

/-- **whose word is taken**: `from_der` counts a signature as verified when the third-party
    verifier says so, or — in an aws-lc-rs build, after that verifier answered "unsupported
    algorithm", for a request signed under ecdsa-with-SHA512 whose SubjectPublicKeyInfo algorithm
    is exactly id-ecPublicKey / secp521r1 — when the back end's P-521 verification of the
    embedded key octets over the same bytes says so; in no other case -/
theorem own_verifier_only_for_labelled_p521 (p521 : Bool)
    (tp : Bytes → Bytes → Bytes → Bytes → ThirdPartyVerdict) (own : Bytes → Bytes → Bytes → Bool)
    (spki info algDer sig : Bytes) (h : rcgenVerify p521 tp own spki info algDer sig = true) :
    tp spki info algDer sig = .ok ∨
    (p521 = true ∧ tp spki info algDer sig = .unsupportedAlgorithm ∧
     (algIdOid algDer).bind (sigAlgFromOid p521) = some .ecdsaP521 ∧
     ∃ bits, spkiParts spki = some (encode (spkiAlgIdent .ecdsaP521), bits) ∧
       own bits info sig = true) := by
  unfold rcgenVerify at h
  cases ht : tp spki info algDer sig with
  | ok => exact Or.inl rfl
  | failed => simp [ht] at h
  | unsupportedAlgorithm =>
    right
    simp only [ht, Bool.and_eq_true, beq_iff_eq] at h
    obtain ⟨⟨hp, halg⟩, hk⟩ := h
    refine ⟨hp, rfl, halg, ?_⟩
    cases hs : spkiParts spki with
    | none => simp [hs] at hk
    | some pr =>
      obtain ⟨ka, kb⟩ := pr
      simp only [hs, Bool.and_eq_true, beq_iff_eq] at hk
      exact ⟨kb, by rw [hk.1], hk.2⟩

/-- **acceptance with both verifiers explicit**: a request is accepted only if, on the embedded
    SubjectPublicKeyInfo, the exact certificationRequestInfo bytes, the outer algorithm and the
    signature bits of the input, one of the two verifiers — in the cases above — confirmed the
    signature -/
theorem accept_implies_verified_by_one_of_two (p521 crypto : Bool)
    (tp : Bytes → Bytes → Bytes → Bytes → ThirdPartyVerdict) (own : Bytes → Bytes → Bytes → Bool)
    (der : Bytes) (r : CsrParsed) (h : parseCsrWith p521 crypto tp own der = .ok r) :
    ∃ info alg sig i, splitSigned der = some (info, alg, sig) ∧ decodeCsrInfo info = some i ∧
      (tp i.spki info alg sig = .ok ∨
       (p521 = true ∧ tp i.spki info alg sig = .unsupportedAlgorithm ∧
        (algIdOid alg).bind (sigAlgFromOid p521) = some .ecdsaP521 ∧
        ∃ bits, spkiParts i.spki = some (encode (spkiAlgIdent .ecdsaP521), bits) ∧
          own bits info sig = true)) := by
  obtain ⟨info, alg, sig, i, h1, h2, h3⟩ := accept_implies_verified p521 crypto _ der r h
  exact ⟨info, alg, sig, i, h1, h2, own_verifier_only_for_labelled_p521 p521 tp own _ _ _ _ h3⟩

/-- without aws-lc-rs the third-party verifier is the only one -/
theorem ring_build_third_party_only (tp : Bytes → Bytes → Bytes → Bytes → ThirdPartyVerdict)
    (own : Bytes → Bytes → Bytes → Bool) (spki info algDer sig : Bytes) :
    rcgenVerify false tp own spki info algDer sig = (tp spki info algDer sig == .ok) := by
  unfold rcgenVerify
  cases tp spki info algDer sig <;> rfl


end Rcgen.Theorems.C06
