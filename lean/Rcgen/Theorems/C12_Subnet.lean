import Rcgen.Theorems.C12
/-
  C12, second part: the matching rule of iPAddress name constraints assembled — what
  `ipInSubnet` (RFC 5280 §4.2.1.10) decides on the subnets rcgen writes from a prefix length,
  and from the `addr/prefix` text of `CidrSubnet::from_str`.
-/
namespace Rcgen.Theorems.C12
open Rcgen Rcgen.Model Rcgen.Spec

/-- `all` over three lists zipped = a statement about every index -/
theorem zip3_all (a b m : Bytes) (P : (UInt8 × UInt8) × UInt8 → Bool)
    (hab : a.length = b.length) (ham : a.length = m.length) :
    (List.zip (List.zip a b) m).all P = true ↔
      ∀ k (hk : k < a.length), P ((a[k], b[k]'(hab ▸ hk)), m[k]'(ham ▸ hk)) = true := by
  induction a generalizing b m with
  | nil => simp
  | cons x a ih =>
    cases b with
    | nil => simp at hab
    | cons y b =>
      cases m with
      | nil => simp at ham
      | cons z m =>
        simp only [List.length_cons, Nat.add_right_cancel_iff] at hab ham
        simp only [List.zip_cons_cons, List.all_cons, Bool.and_eq_true, ih b m hab ham, List.length_cons]
        constructor
        · rintro ⟨h0, hr⟩ k hk
          cases k with
          | zero => simpa using h0
          | succ k => simpa using hr k (by omega)
        · intro h
          refine ⟨by simpa using h 0 (by omega), fun k hk => ?_⟩
          have := h (k + 1) (by omega)
          simpa only [List.getElem_cons_succ] using this

end Rcgen.Theorems.C12
namespace Rcgen.Theorems.C12
open Rcgen Rcgen.Model Rcgen.Spec

/-- how many of the first `min n w` bits fall into octet `k` -/
def bitsIn (w n k : Nat) : Nat := min 8 (min n w - min (min n w) (8 * k))

theorem maskByte_lt (r : Nat) (h : r ≤ 8) : maskByte r < 256 := by
  have : ∀ r, r ≤ 8 → maskByte r < 256 := by decide
  exact this r h

/-- the mask octets, one by one -/
theorem prefixMask_getElem (w : Nat) (hw : w = 32 ∨ w = 128) (n : Nat) (hn : n < 256) :
    (prefixMask w n).length = w / 8 ∧
    ∀ k (hk : k < (prefixMask w n).length), ((prefixMask w n)[k]).toNat = maskByte (bitsIn w n k) := by
  have t := prefix_mask_octets
  rw [List.all_eq_true] at t
  have tn := t n (List.mem_range.2 hn)
  simp only [Bool.and_eq_true, beq_iff_eq] at tn
  have key : ∀ (c : Nat) (l : Bytes), l = (List.range c).map (fun i => UInt8.ofNat (maskByte (min 8 (min n w - min (min n w) (8 * i))) % 256)) →
      l.length = c ∧ ∀ k (hk : k < l.length), (l[k]).toNat = maskByte (bitsIn w n k) := by
    intro c l hl
    subst hl
    refine ⟨by simp, ?_⟩
    intro k hk
    simp only [List.getElem_map, List.getElem_range, UInt8.toNat_ofNat']
    have hb : bitsIn w n k ≤ 8 := by unfold bitsIn; omega
    have := maskByte_lt _ hb
    unfold bitsIn at this ⊢
    omega
  rcases hw with rfl | rfl
  · exact key 4 _ tn.1
  · exact key 16 _ tn.2

/-- **a CIDR prefix constrains exactly the leading bits**: an address is inside the subnet rcgen
    writes for (base address, prefix length n) iff it agrees with the base address on the first
    `min(n, width)` bits — octet by octet: on all eight bits of the octets the prefix covers, on
    the top bits of the one it ends in, on none of the others -/
theorem ip_in_prefix_subnet_iff (w : Nat) (hw : w = 32 ∨ w = 128) (a b : Bytes) (n : Nat)
    (hn : n < 256) (ha : a.length = w / 8) (hb : b.length = w / 8) :
    ipInSubnet a (b ++ prefixMask w n) = true ↔
      ∀ k (hk : k < w / 8),
        (a[k]'(ha ▸ hk)).toNat / 2 ^ (8 - bitsIn w n k) = (b[k]'(hb ▸ hk)).toNat / 2 ^ (8 - bitsIn w n k) := by
  obtain ⟨hml, hme⟩ := prefixMask_getElem w hw n hn
  unfold ipInSubnet
  have hlen : ((b ++ prefixMask w n).length == 2 * a.length) = true := by
    simp only [List.length_append, beq_iff_eq]; omega
  have htake : (b ++ prefixMask w n).take a.length = b := by
    rw [ha, ← hb]; exact List.take_left' rfl
  have hdrop : (b ++ prefixMask w n).drop a.length = prefixMask w n := by
    rw [ha, ← hb]; exact List.drop_left' rfl
  simp only [hlen, Bool.true_and, htake, hdrop]
  rw [zip3_all a b (prefixMask w n) _ (by omega) (by omega)]
  constructor
  · intro h k hk
    have := h k (by omega)
    simp only [beq_iff_eq] at this
    rw [hme k (by omega)] at this
    have hb8 : bitsIn w n k ≤ 8 := by unfold bitsIn; omega
    exact (octet_match_iff _ _ _ hb8).1 this
  · intro h k hk
    simp only [beq_iff_eq]
    rw [hme k (by omega)]
    have hb8 : bitsIn w n k ≤ 8 := by unfold bitsIn; omega
    exact (octet_match_iff _ _ _ hb8).2 (h k (by omega))

/-- non-vacuity: 192.0.2.77 is inside 192.0.2.0/24 and outside 192.0.2.0/26 -/
example : ipInSubnet [192, 0, 2, 77] ([192, 0, 2, 0] ++ prefixMask 32 24) = true ∧
    ipInSubnet [192, 0, 2, 77] ([192, 0, 2, 0] ++ prefixMask 32 26) = false := by decide

end Rcgen.Theorems.C12

namespace Rcgen.Theorems.C12
open Rcgen Rcgen.Model Rcgen.Spec

theorem getD_getElem (l : Bytes) (k : Nat) (h : k < l.length) : l.getD k 0 = l[k] := by
  simp [List.getD, List.getElem?_eq_getElem h]

/-- … and so does the subnet `CidrSubnet::from_str` builds from a text: whatever text it accepts
    denotes an address and a number n ≤ 255, and a name of the same family is inside the written
    constraint iff it agrees with that address on the first `min(n, width)` bits -/
theorem cidr_text_constrains_leading_bits (s : Bytes) (c : CidrSubnet) (h : cidrFromStr s = some c) :
    ∃ (w : Nat) (addr : Bytes) (n : Nat), (w = 32 ∨ w = 128) ∧ addr.length = w / 8 ∧ n ≤ 255 ∧
      c.bytes = addr ++ prefixMask w n ∧
      ∀ (x : Bytes) (hx : x.length = w / 8),
        (ipInSubnet x c.bytes = true ↔
          ∀ k (hk : k < w / 8),
            (x[k]'(hx ▸ hk)).toNat / 2 ^ (8 - bitsIn w n k) =
              (addr.getD k 0).toNat / 2 ^ (8 - bitsIn w n k)) := by
  obtain ⟨a, p, rest, addr, n, _, _, _, _, hle, hc⟩ := C02.cidr_from_str_subnet s c h
  obtain ⟨m4, m6⟩ := C02.prefixMask_leadingOnes n (by omega)
  rcases hc with ⟨hl, rfl⟩ | ⟨hl, rfl⟩
  · refine ⟨32, addr, n, Or.inl rfl, by simpa using hl, hle, by simp [CidrSubnet.bytes, m4], ?_⟩
    intro x hx
    simp only [CidrSubnet.bytes, ← m4]
    have hal : addr.length = 32 / 8 := by simpa using hl
    rw [ip_in_prefix_subnet_iff 32 (Or.inl rfl) x addr n (by omega) hx hal]
    constructor
    · intro hh k hk; rw [getD_getElem _ _ (by omega)]; exact hh k hk
    · intro hh k hk; have := hh k hk; rwa [getD_getElem _ _ (by omega)] at this
  · refine ⟨128, addr, n, Or.inr rfl, by simpa using hl, hle, by simp [CidrSubnet.bytes, m6], ?_⟩
    intro x hx
    simp only [CidrSubnet.bytes, ← m6]
    have hal : addr.length = 128 / 8 := by simpa using hl
    rw [ip_in_prefix_subnet_iff 128 (Or.inr rfl) x addr n (by omega) hx hal]
    constructor
    · intro hh k hk; rw [getD_getElem _ _ (by omega)]; exact hh k hk
    · intro hh k hk; have := hh k hk; rwa [getD_getElem _ _ (by omega)] at this

end Rcgen.Theorems.C12
