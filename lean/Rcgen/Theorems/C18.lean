import Rcgen.Model.Cli
import Rcgen.Theorems.C03
/-
  C18 — the CLI writes a usable CA and end-entity pair for any valid options.
  Model: `cliRun` (Model/Cli.lean): parsed options → error, or the two parameter sets and the
  ordered list of files.  bpaf's argv grammar and the file system are outside the model; the
  check runs the real binary.
-/
namespace Rcgen.Theorems.C18
open Rcgen Rcgen.Model

/-- **failure happens before any file is created, and exactly for invalid options**: a name
    that is neither an IP literal nor ASCII, base names whose four files would not be four
    different files, a country that is not a PrintableString, or a key algorithm the back end
    cannot generate -/
theorem cli_error_iff (aws : Bool) (o : CliOptions) :
    (∃ e, cliRun aws o = .error e) ↔
      ((∃ e, classifySans o.sans = .error e) ∨ namesCollide o.certFileName o.caFileName = true ∨
       o.countryName.all printableByte = false ∨ cliKeyAlg aws o.alg = none) := by
  unfold cliRun
  cases hs : classifySans o.sans with
  | error e => simp
  | ok sans =>
    simp only [reduceCtorEq, exists_false, false_or]
    cases hn : namesCollide o.certFileName o.caFileName with
    | true => simp
    | false =>
    simp only [Bool.false_eq_true, if_false, false_or]
    cases hc : o.countryName.all printableByte with
    | false => simp
    | true =>
      simp only [Bool.not_true, Bool.false_eq_true, if_false]
      cases hk : cliKeyAlg aws o.alg with
      | none => simp
      | some a => simp

/-- on success the tool writes exactly four files, end-entity first: `<cert>.key.pem`,
    `<cert>.pem`, `<ca>.key.pem`, `<ca>.pem` -/
theorem cli_ok_writes_four (aws : Bool) (o : CliOptions) (plan : CliPlan)
    (h : cliRun aws o = .ok plan) :
    plan.files = [o.certFileName ++ keyPemSuffix, o.certFileName ++ pemSuffix,
                  o.caFileName ++ keyPemSuffix, o.caFileName ++ pemSuffix] := by
  unfold cliRun at h
  split at h
  · cases h
  · split at h
    · cases h
    · split at h
      · cases h
      · split at h
        · cases h
        · injection h with h; subst h; rfl

/-- **the four files are four different files**: whenever the tool succeeds, no output
    overwrites another (a base name that is the other one plus `.key`, or equal to it, is
    refused) -/
theorem cli_files_distinct (aws : Bool) (o : CliOptions) (plan : CliPlan)
    (h : cliRun aws o = .ok plan) : plan.files.Nodup := by
  have hf := cli_ok_writes_four aws o plan h
  have hn : namesCollide o.certFileName o.caFileName = false := by
    cases hc : namesCollide o.certFileName o.caFileName with
    | false => rfl
    | true =>
      have : ∃ e, cliRun aws o = .error e := (cli_error_iff aws o).2 (Or.inr (Or.inl hc))
      obtain ⟨e, he⟩ := this
      rw [he] at h; cases h
  unfold namesCollide at hn
  simp only [Bool.or_eq_false_iff, beq_eq_false_iff_ne, ne_eq] at hn
  obtain ⟨⟨h1, h2⟩, h3⟩ := hn
  have key_pem : keyPemSuffix = keySuffix ++ pemSuffix := rfl
  rw [hf]
  simp only [List.nodup_cons, List.mem_cons, List.not_mem_nil, or_false, not_or, List.nodup_nil,
    and_true, not_false_eq_true]
  refine ⟨⟨?_, ?_, ?_⟩, ⟨?_, ?_⟩, ?_⟩
  · -- cert.key.pem ≠ cert.pem
    intro e; rw [key_pem, ← List.append_assoc] at e
    have := List.append_cancel_right e
    have hl := congrArg List.length this
    simp [keySuffix] at hl
  · intro e; exact h1 (List.append_cancel_right e)
  · intro e; rw [key_pem, ← List.append_assoc] at e
    exact h3 (List.append_cancel_right e).symm
  · intro e; rw [key_pem, ← List.append_assoc] at e
    exact h2 (List.append_cancel_right e)
  · intro e; exact h1 (List.append_cancel_right e)
  · intro e; rw [key_pem, ← List.append_assoc] at e
    have := List.append_cancel_right e
    have hl := congrArg List.length this
    simp [keySuffix] at hl

/-- the end-entity certificate carries exactly the given names in order — IP literals as IP
    addresses, everything else as DNS names —, the common name, the requested purposes, and
    asks for an authority key identifier -/
theorem cli_ee_params (aws : Bool) (o : CliOptions) (plan : CliPlan) (h : cliRun aws o = .ok plan) :
    ∃ sans, classifySans o.sans = .ok sans ∧ plan.ee.sans = sans ∧
      plan.ee.dn.iter = [(.commonName, .utf8 o.commonName)] ∧
      plan.ee.ekus = (if o.clientAuth then [Eku.clientAuth] else []) ++
                     (if o.serverAuth then [Eku.serverAuth] else []) ∧
      plan.ee.isCa = .noCa ∧ plan.ee.useAki = true ∧ plan.ee.keyUsages = [.digitalSignature] := by
  unfold cliRun at h
  split at h
  · cases h
  · rename_i sans hs
    split at h
    · cases h
    · split at h
      · cases h
      · split at h
        · cases h
        · injection h with h; subst h
          exact ⟨sans, hs, rfl, rfl, rfl, rfl, rfl, rfl⟩

/-- the CA is a CA without path-length limit, with certificate-signing and CRL-signing usage,
    named by (country, organisation) -/
theorem cli_ca_params (aws : Bool) (o : CliOptions) (plan : CliPlan) (h : cliRun aws o = .ok plan) :
    plan.ca.isCa = .ca none ∧ KeyUsage.keyCertSign ∈ plan.ca.keyUsages ∧
    KeyUsage.crlSign ∈ plan.ca.keyUsages := by
  unfold cliRun at h
  split at h
  · cases h
  · split at h
    · cases h
    · split at h
      · cases h
      · split at h
        · cases h
        · injection h with h; subst h
          refine ⟨rfl, ?_, ?_⟩ <;> simp [cliCaParams]

/-- each classified name is a well-formed address (4 or 16 octets) or an ASCII DNS name -/
theorem classify_wellformed (s : Bytes) (t : SanType) (h : classifySan s = .ok t) :
    (∃ o, t = .ip o ∧ (parseIpv4 s = some o ∨ parseIpv6 s = some o)) ∨
    (t = .dns s ∧ s.all (fun b => b.toNat < 128) = true ∧ parseIpv4 s = none ∧ parseIpv6 s = none) := by
  unfold classifySan at h
  cases h4 : parseIpv4 s with
  | some o => simp only [h4] at h; injection h with h; exact Or.inl ⟨o, h.symm, Or.inl rfl⟩
  | none =>
    simp only [h4] at h
    cases h6 : parseIpv6 s with
    | some o => simp only [h6] at h; injection h with h; exact Or.inl ⟨o, h.symm, Or.inr rfl⟩
    | none =>
      simp only [h6] at h
      split at h
      · rename_i ha; injection h with h; exact Or.inr ⟨h.symm, ha, rfl, rfl⟩
      · cases h

theorem parseIpv4_length (s o : Bytes) (h : parseIpv4 s = some o) : o.length = 4 := by
  unfold parseIpv4 at h
  split at h
  · injection h with h; subst h; rfl
  · cases h

/-- the pair chains: the end-entity's issuer field is the CA's subject field, and its
    authority key identifier is the CA's subject key identifier (C03) -/
theorem cli_pair_chains (H : Hashes) (aws : Bool) (o : CliOptions) (plan : CliPlan)
    (_h : cliRun aws o = .ok plan) (eeKey caKey : PubKey) (anyIssuer : Issuer) :
    (tbsCertificateFields H plan.ee eeKey (C03.issuerView plan.ca caKey))[3]? =
      (tbsCertificateFields H plan.ca caKey anyIssuer)[5]? ∧
    akiValue H (C03.issuerView plan.ca caKey) = plan.ca.keyIdMethod.derive H (spkiDer caKey) :=
  ⟨C03.issuer_name_bytes H plan.ee plan.ca eeKey caKey anyIssuer, C03.aki_eq_issuer_ski H plan.ca caKey⟩

/-! non-vacuity -/
def sampleOpts : CliOptions :=
  { output := [111], alg := .p256, clientAuth := false, serverAuth := true, certFileName := [99],
    caFileName := [114], sans := [[49, 46, 50, 46, 51, 46, 52], [97, 46, 98]], commonName := [120],
    countryName := [66, 82], organizationName := [79] }

example : ∃ plan, cliRun false sampleOpts = .ok plan ∧
    plan.ee.sans = [.ip [1, 2, 3, 4], .dns [97, 46, 98]] := ⟨_, rfl, rfl⟩
example : cliRun false { sampleOpts with alg := .rsa } = .error .keyGenerationUnavailable := rfl
-- `--cert-file-name x.key --ca-file-name x`: `x.key.pem` would be written twice
example : cliRun false { sampleOpts with certFileName := [120, 46, 107, 101, 121], caFileName := [120] } =
    .error (.other "same-file") := rfl

end Rcgen.Theorems.C18
