import Rcgen.Model.Cli
import Rcgen.Theorems.C03
import Rcgen.Theorems.C12
/-
  C18 — the CLI writes a usable CA and end-entity pair for any valid options.
  Model: `cliRun` (Model/Cli.lean): parsed options → error, or the two parameter sets and the
  ordered list of files.  bpaf's argv grammar and the file system are outside the model; the
  check runs the real binary.
-/
namespace Rcgen.Theorems.C18
open Rcgen Rcgen.Model

/-- **failure happens before any file is created, and exactly for invalid options**: a name
    that is neither an IP literal nor ASCII, base names whose four files would not be four
    different files, a country that is not a PrintableString, or a key algorithm the back end
    cannot generate -/
theorem cli_error_iff (aws : Bool) (o : CliOptions) :
    (∃ e, cliRun aws o = .error e) ↔
      ((∃ e, classifySans o.sans = .error e) ∨ namesCollide o.certFileName o.caFileName = true ∨
       o.countryName.all printableByte = false ∨ cliKeyAlg aws o.alg = none) := by
  unfold cliRun
  cases hs : classifySans o.sans with
  | error e => simp
  | ok sans =>
    simp only [reduceCtorEq, exists_false, false_or]
    cases hn : namesCollide o.certFileName o.caFileName with
    | true => simp
    | false =>
    simp only [Bool.false_eq_true, if_false, false_or]
    cases hc : o.countryName.all printableByte with
    | false => simp
    | true =>
      simp only [Bool.not_true, Bool.false_eq_true, if_false]
      cases hk : cliKeyAlg aws o.alg with
      | none => simp
      | some a => simp

/-- on success the tool writes exactly four files, end-entity first: `<cert>.key.pem`,
    `<cert>.pem`, `<ca>.key.pem`, `<ca>.pem` -/
theorem cli_ok_writes_four (aws : Bool) (o : CliOptions) (plan : CliPlan)
    (h : cliRun aws o = .ok plan) :
    plan.files = [o.certFileName ++ keyPemSuffix, o.certFileName ++ pemSuffix,
                  o.caFileName ++ keyPemSuffix, o.caFileName ++ pemSuffix] := by
  unfold cliRun at h
  split at h
  · cases h
  · split at h
    · cases h
    · split at h
      · cases h
      · split at h
        · cases h
        · injection h with h; subst h; rfl

/-- **the four files are four different files**: whenever the tool succeeds, no output
    overwrites another (a base name that is the other one plus `.key`, or equal to it, is
    refused) -/
theorem cli_files_distinct (aws : Bool) (o : CliOptions) (plan : CliPlan)
    (h : cliRun aws o = .ok plan) : plan.files.Nodup := by
  have hf := cli_ok_writes_four aws o plan h
  have hn : namesCollide o.certFileName o.caFileName = false := by
    cases hc : namesCollide o.certFileName o.caFileName with
    | false => rfl
    | true =>
      have : ∃ e, cliRun aws o = .error e := (cli_error_iff aws o).2 (Or.inr (Or.inl hc))
      obtain ⟨e, he⟩ := this
      rw [he] at h; cases h
  rw [hf]
  unfold namesCollide at hn
  simp only [cliOutputs, List.map_cons, List.map_nil, decide_eq_false_iff_not, Decidable.not_not,
    List.nodup_cons, List.mem_cons, List.not_mem_nil, or_false, not_or, List.nodup_nil, and_true,
    not_false_eq_true] at hn
  obtain ⟨⟨h1, h2, h3⟩, ⟨h4, h5⟩, h6⟩ := hn
  simp only [List.nodup_cons, List.mem_cons, List.not_mem_nil, or_false, not_or, List.nodup_nil,
    and_true, not_false_eq_true]
  exact ⟨⟨fun e => h1 (congrArg lexicalPath e), fun e => h2 (congrArg lexicalPath e),
    fun e => h3 (congrArg lexicalPath e)⟩, ⟨fun e => h4 (congrArg lexicalPath e),
    fun e => h5 (congrArg lexicalPath e)⟩, fun e => h6 (congrArg lexicalPath e)⟩

/-- ... and not only as names: two of the four that differ as strings but are one file (`./x` and
    `x`, `a/../x` and `x`, `a//b` and `a/b`) are refused as well — what is compared is the lexical
    form of each output's path -/
theorem cli_files_distinct_as_paths (aws : Bool) (o : CliOptions) (plan : CliPlan)
    (h : cliRun aws o = .ok plan) : (plan.files.map lexicalPath).Nodup := by
  have hf := cli_ok_writes_four aws o plan h
  have hn : namesCollide o.certFileName o.caFileName = false := by
    cases hc : namesCollide o.certFileName o.caFileName with
    | false => rfl
    | true =>
      have : ∃ e, cliRun aws o = .error e := (cli_error_iff aws o).2 (Or.inr (Or.inl hc))
      obtain ⟨e, he⟩ := this
      rw [he] at h; cases h
  rw [hf]
  unfold namesCollide at hn
  simp only [cliOutputs, List.map_cons, List.map_nil, decide_eq_false_iff_not, Decidable.not_not,
    List.nodup_cons, List.mem_cons, List.not_mem_nil, or_false, not_or, List.nodup_nil, and_true,
    not_false_eq_true] at hn
  obtain ⟨⟨h1, h2, h3⟩, ⟨h4, h5⟩, h6⟩ := hn
  simp only [List.map_cons, List.map_nil, List.nodup_cons, List.mem_cons, List.not_mem_nil,
    or_false, not_or, List.nodup_nil, and_true, not_false_eq_true]
  exact ⟨⟨h1, h2, h3⟩, ⟨h4, h5⟩, h6⟩

example : namesCollide [46, 47, 120, 46, 107, 101, 121] [120] = true := by decide   -- "./x.key" and "x"
example : namesCollide [97, 47, 46, 46, 47, 120] [120] = true := by decide          -- "a/../x" and "x"
example : namesCollide [120] [121] = false := by decide

/-- the end-entity certificate carries exactly the given names in order — IP literals as IP
    addresses, everything else as DNS names —, the common name, the requested purposes, and
    asks for an authority key identifier -/
theorem cli_ee_params (aws : Bool) (o : CliOptions) (plan : CliPlan) (h : cliRun aws o = .ok plan) :
    ∃ sans, classifySans o.sans = .ok sans ∧ plan.ee.sans = sans ∧
      plan.ee.dn.iter = [(.commonName, .utf8 o.commonName)] ∧
      plan.ee.ekus = (if o.clientAuth then [Eku.clientAuth] else []) ++
                     (if o.serverAuth then [Eku.serverAuth] else []) ∧
      plan.ee.isCa = .noCa ∧ plan.ee.useAki = true ∧ plan.ee.keyUsages = [.digitalSignature] := by
  unfold cliRun at h
  split at h
  · cases h
  · rename_i sans hs
    split at h
    · cases h
    · split at h
      · cases h
      · split at h
        · cases h
        · injection h with h; subst h
          exact ⟨sans, hs, rfl, rfl, rfl, rfl, rfl, rfl⟩

/-- the CA is a CA without path-length limit, with certificate-signing and CRL-signing usage,
    named by (country, organisation) -/
theorem cli_ca_params (aws : Bool) (o : CliOptions) (plan : CliPlan) (h : cliRun aws o = .ok plan) :
    plan.ca.isCa = .ca none ∧ KeyUsage.keyCertSign ∈ plan.ca.keyUsages ∧
    KeyUsage.crlSign ∈ plan.ca.keyUsages := by
  unfold cliRun at h
  split at h
  · cases h
  · split at h
    · cases h
    · split at h
      · cases h
      · split at h
        · cases h
        · injection h with h; subst h
          refine ⟨rfl, ?_, ?_⟩ <;> simp [cliCaParams]

/-- each classified name is a well-formed address (4 or 16 octets) or an ASCII DNS name -/
theorem classify_wellformed (s : Bytes) (t : SanType) (h : classifySan s = .ok t) :
    (∃ o, t = .ip o ∧ (parseIpv4 s = some o ∨ parseIpv6 s = some o)) ∨
    (t = .dns s ∧ s.all (fun b => b.toNat < 128) = true ∧ parseIpv4 s = none ∧ parseIpv6 s = none) := by
  unfold classifySan at h
  cases h4 : parseIpv4 s with
  | some o => simp only [h4] at h; injection h with h; exact Or.inl ⟨o, h.symm, Or.inl rfl⟩
  | none =>
    simp only [h4] at h
    cases h6 : parseIpv6 s with
    | some o => simp only [h6] at h; injection h with h; exact Or.inl ⟨o, h.symm, Or.inr rfl⟩
    | none =>
      simp only [h6] at h
      split at h
      · rename_i ha; injection h with h; exact Or.inr ⟨h.symm, ha, rfl, rfl⟩
      · cases h

theorem parseIpv4_length (s o : Bytes) (h : parseIpv4 s = some o) : o.length = 4 := by
  unfold parseIpv4 at h
  split at h
  · injection h with h; subst h; rfl
  · cases h

/-- the pair chains: the end-entity's issuer field is the CA's subject field, and its
    authority key identifier is the CA's subject key identifier (C03) -/
theorem cli_pair_chains (H : Hashes) (aws : Bool) (o : CliOptions) (plan : CliPlan)
    (_h : cliRun aws o = .ok plan) (eeKey caKey : PubKey) (anyIssuer : Issuer) :
    (tbsCertificateFields H plan.ee eeKey (C03.issuerView plan.ca caKey))[3]? =
      (tbsCertificateFields H plan.ca caKey anyIssuer)[5]? ∧
    akiValue H (C03.issuerView plan.ca caKey) = plan.ca.keyIdMethod.derive H (spkiDer caKey) :=
  ⟨C03.issuer_name_bytes H plan.ee plan.ca eeKey caKey anyIssuer, C03.aki_eq_issuer_ski H plan.ca caKey⟩

/-- the purposes the end-entity certificate is good for: any when no flag was given, otherwise
    exactly the flagged ones -/
def purposeAllowed (o : CliOptions) (u : Spec.Purpose) : Bool :=
  (!o.clientAuth && !o.serverAuth) ||
  (match u with
   | .clientAuth => o.clientAuth
   | .serverAuth => o.serverAuth
   | _ => false)

/-- **the written pair validates**: an RFC 5280 §6.1 validator, run on what the two certificates
    the tool writes decode to (C02), with the CA as trust anchor, accepts the end-entity
    certificate — at every time inside the tool's fixed validity window, for exactly the
    purposes the flags ask for, whether or not the anchor itself is checked and key usage is
    enforced, for every valid option set, every pair of keys and every hash family -/
theorem cli_pair_validates (H : Hashes) (aws ac kc : Bool) (o : CliOptions) (plan : CliPlan)
    (h : cliRun aws o = .ok plan) (caKey eeKey : PubKey) (t : Int) (u : Spec.Purpose)
    (ht : defaultParams.notBefore.epochSeconds ≤ t ∧ t ≤ defaultParams.notAfter.epochSeconds) :
    Spec.validate ac kc
      ((C12.chainOf H [⟨plan.ca, caKey⟩, ⟨plan.ee, eeKey⟩]).map Proofs.CertDecode.modelTbs) t u =
      purposeAllowed o u := by
  have hv := C12.validator_verdict_is_implied H ac kc [⟨plan.ca, caKey⟩] ⟨plan.ee, eeKey⟩ t u
    (by simp) ?_
  · simp only [List.cons_append, List.nil_append] at hv
    rw [hv]
    unfold cliRun at h
    split at h
    · cases h
    · split at h
      · cases h
      · split at h
        · cases h
        · split at h
          · cases h
          · injection h with h; subst h
            obtain ⟨ht1, ht2⟩ := ht
            have tv1 : Spec.pTimeValid (cliCaParams o.countryName o.organizationName) t = true := by
              simp only [Spec.pTimeValid, cliCaParams, cliBase, Bool.and_eq_true]
              exact ⟨decide_eq_true ht1, decide_eq_true ht2⟩
            have tv2 : ∀ sans, Spec.pTimeValid (cliEeParams o.commonName sans o.clientAuth o.serverAuth) t = true := by
              intro sans
              simp only [Spec.pTimeValid, cliEeParams, cliBase, Bool.and_eq_true]
              exact ⟨decide_eq_true ht1, decide_eq_true ht2⟩
            simp only [Spec.expectedVerdict, List.map_cons, List.map_nil, List.reverse_cons,
              List.reverse_nil, List.nil_append, List.cons_append, List.length_cons, List.length_nil,
              List.range, List.range.loop, List.zip_cons_cons, List.zip_nil_right, List.all_cons,
              List.all_nil, Bool.and_true, tv1, tv2]
            cases hc : o.clientAuth <;> cases hs : o.serverAuth <;> cases u <;> cases ac <;> cases kc <;>
              simp [hc, hs, purposeAllowed, Spec.pEkuAllows, Spec.pIsCa, Spec.pMayCertSign, Spec.pPathLen,
                Spec.pNcAllowsLeaf, cliCaParams, cliEeParams, cliBase, defaultParams, Spec.rfcEkuOid,
                Spec.Purpose.oid]
  · -- neither certificate carries caller-supplied extensions
    intro l hl e he
    unfold cliRun at h
    split at h
    · cases h
    · split at h
      · cases h
      · split at h
        · cases h
        · split at h
          · cases h
          · injection h with h; subst h
            simp only [List.cons_append, List.nil_append, List.mem_cons, List.not_mem_nil, or_false] at hl
            rcases hl with rfl | rfl <;> simp [cliCaParams, cliEeParams, cliBase, defaultParams] at he

/-! non-vacuity -/
def sampleOpts : CliOptions :=
  { output := [111], alg := .p256, clientAuth := false, serverAuth := true, certFileName := [99],
    caFileName := [114], sans := [[49, 46, 50, 46, 51, 46, 52], [97, 46, 98]], commonName := [120],
    countryName := [66, 82], organizationName := [79] }

example : ∃ plan, cliRun false sampleOpts = .ok plan ∧
    plan.ee.sans = [.ip [1, 2, 3, 4], .dns [97, 46, 98]] := ⟨_, rfl, rfl⟩
example : cliRun false { sampleOpts with alg := .rsa } = .error .keyGenerationUnavailable := rfl
-- the validity window of `cli_pair_validates` contains, e.g., 2025-06-15
example : defaultParams.notBefore.epochSeconds ≤ 1750000000 ∧
    (1750000000 : Int) ≤ defaultParams.notAfter.epochSeconds := by decide +kernel
example : purposeAllowed sampleOpts .serverAuth = true ∧ purposeAllowed sampleOpts .clientAuth = false := by
  decide
-- `--cert-file-name x.key --ca-file-name x`: `x.key.pem` would be written twice
example : cliRun false { sampleOpts with certFileName := [120, 46, 107, 101, 121], caFileName := [120] } =
    .error (.other "same-file") := rfl

end Rcgen.Theorems.C18
