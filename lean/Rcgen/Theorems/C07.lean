import Rcgen.Theorems.C01
/-
  C07 — a CSR says exactly what its parameters say, or is refused.
  This file: the refusal decision logic and the shape of the request; the typed decode
  theorem is in Theorems/C02 (shared extension lemmas).
-/
namespace Rcgen.Theorems.C07
open Rcgen Rcgen.Model

/-- the refusal rule, stated outright: exactly the five CSR-inexpressible fields -/
theorem unsupported_iff (p : CertParams) :
    csrUnsupported p = true ↔
      (p.serial.isSome = true ∨ p.isCa ≠ .noCa ∨ p.nameConstraints.isSome = true ∨
       p.crlDps ≠ [] ∨ p.useAki = true) := by
  unfold csrUnsupported
  simp only [Bool.or_eq_true, bne_iff_ne, ne_eq, Bool.not_eq_true', List.isEmpty_eq_false_iff]
  constructor
  · intro h
    rcases h with (((h | h) | h) | h) | h
    · exact Or.inl h
    · exact Or.inr (Or.inl h)
    · exact Or.inr (Or.inr (Or.inl h))
    · exact Or.inr (Or.inr (Or.inr (Or.inl h)))
    · exact Or.inr (Or.inr (Or.inr (Or.inr h)))
  · intro h
    rcases h with h | h | h | h | h
    · exact Or.inl (Or.inl (Or.inl (Or.inl h)))
    · exact Or.inl (Or.inl (Or.inl (Or.inr h)))
    · exact Or.inl (Or.inl (Or.inr h))
    · exact Or.inl (Or.inr h)
    · exact Or.inr h

/-- parameters a CSR cannot express cause `UnsupportedInCsr`, whatever else is set, whatever
    the key and the signer: nothing is silently dropped -/
theorem csr_refused_if_unsupported (p : CertParams) (s : PubKey) (attrs : List Attribute)
    (sign : Signer) (h : csrUnsupported p = true) :
    serializeRequest p s attrs sign = .err .unsupportedInCsr := by
  unfold serializeRequest; simp [h]

/-- and only those: with none of the five set the request is produced (given encodable OIDs
    and a signer that succeeds), and it is exactly the signed `csrInfo` -/
theorem csr_produced_otherwise (p : CertParams) (s : PubKey) (attrs : List Attribute)
    (sign : Signer) (h : csrUnsupported p = false) (hv : csrInvalid p attrs = none)
    (hp : csrPanics p attrs = false) (sig : Bytes)
    (hs : sign (encode (csrInfo p s attrs)) = .ok sig) :
    serializeRequest p s attrs sign =
      .ok (.seq [csrInfo p s attrs, algIdent s.alg, .bitStringOctets sig]) := by
  unfold serializeRequest signDer
  simp [h, hv, hp, hs]

/-- the request always carries version 0, the subject, the requester's SubjectPublicKeyInfo
    and the `[0]` attributes field (present even when empty) -/
theorem csr_shape (p : CertParams) (s : PubKey) (attrs : List Attribute) :
    csrInfo p s attrs =
      .seq [.intOfNat 0, writeDistinguishedName p.dn, spkiNode s,
            .cons 2 0 (sortByEncoding (csrAttributes p attrs))] := rfl

/-- at most one extension request, present iff one of the four CSR-expressible extension
    fields is non-empty; every caller attribute follows, values embedded as given -/
theorem csr_attributes (p : CertParams) (attrs : List Attribute) :
    csrAttributes p attrs =
      (if writeExtensionRequest p then [extensionRequestAttr p] else []) ++
      attrs.map (fun a => Asn1.seq [.oid a.oid, .raw a.values]) := rfl

theorem extension_request_iff (p : CertParams) :
    writeExtensionRequest p = true ↔
      (p.keyUsages ≠ [] ∨ p.sans ≠ [] ∨ p.ekus ≠ [] ∨ p.customExts ≠ []) := by
  unfold writeExtensionRequest
  simp only [Bool.or_eq_true, Bool.not_eq_true', List.isEmpty_eq_false_iff, ne_eq]
  constructor
  · intro h
    rcases h with ((h | h) | h) | h
    · exact Or.inl h
    · exact Or.inr (Or.inl h)
    · exact Or.inr (Or.inr (Or.inl h))
    · exact Or.inr (Or.inr (Or.inr h))
  · intro h
    rcases h with h | h | h | h
    · exact Or.inl (Or.inl (Or.inl h))
    · exact Or.inl (Or.inl (Or.inr h))
    · exact Or.inl (Or.inr h)
    · exact Or.inr h

/-- caller-supplied attribute values are embedded byte for byte -/
theorem attribute_values_verbatim (a : Attribute) :
    encode (attrNode a) = encode (.cons 0 16 [.oid a.oid, .raw a.values]) ∧
    encode (Asn1.raw a.values) = a.values := ⟨rfl, rfl⟩

/-! non-vacuity -/
example : csrUnsupported { (default : CertParams) with useAki := true } = true := by decide
example : csrUnsupported (default : CertParams) = false := by decide

end Rcgen.Theorems.C07
