import Rcgen.Proofs.CsrDecode
import Rcgen.Proofs.CsrRoundTrip
/-
  C07 — a CSR says exactly what its parameters say, or is refused.
  This file: the refusal decision logic, the shape of the request, and
  `csr_decodes_to_request`: the full typed decode (assembled in Proofs/CsrDecode.lean on the
  extension lemmas shared with C02).
-/
namespace Rcgen.Theorems.C07
open Rcgen Rcgen.Model

/-- the refusal rule, stated outright: exactly the five CSR-inexpressible fields -/
theorem unsupported_iff (p : CertParams) :
    csrUnsupported p = true ↔
      (p.serial.isSome = true ∨ p.isCa ≠ .noCa ∨ p.nameConstraints.isSome = true ∨
       p.crlDps ≠ [] ∨ p.useAki = true) := by
  unfold csrUnsupported
  simp only [Bool.or_eq_true, bne_iff_ne, ne_eq, Bool.not_eq_true', List.isEmpty_eq_false_iff]
  constructor
  · intro h
    rcases h with (((h | h) | h) | h) | h
    · exact Or.inl h
    · exact Or.inr (Or.inl h)
    · exact Or.inr (Or.inr (Or.inl h))
    · exact Or.inr (Or.inr (Or.inr (Or.inl h)))
    · exact Or.inr (Or.inr (Or.inr (Or.inr h)))
  · intro h
    rcases h with h | h | h | h | h
    · exact Or.inl (Or.inl (Or.inl (Or.inl h)))
    · exact Or.inl (Or.inl (Or.inl (Or.inr h)))
    · exact Or.inl (Or.inl (Or.inr h))
    · exact Or.inl (Or.inr h)
    · exact Or.inr h

/-- parameters a CSR cannot express cause `UnsupportedInCsr`, whatever else is set, whatever
    the key and the signer: nothing is silently dropped -/
theorem csr_refused_if_unsupported (p : CertParams) (s : PubKey) (attrs : List Attribute)
    (sign : Signer) (h : csrUnsupported p = true) :
    serializeRequest p s attrs sign = .err .unsupportedInCsr := by
  unfold serializeRequest; simp [h]

/-- and only those: with none of the five set the request is produced (given encodable OIDs
    and a signer that succeeds), and it is exactly the signed `csrInfo` -/
theorem csr_produced_otherwise (p : CertParams) (s : PubKey) (attrs : List Attribute)
    (sign : Signer) (h : csrUnsupported p = false) (hv : csrInvalid p attrs = none)
    (hp : csrPanics p attrs = false) (sig : Bytes)
    (hs : sign (encode (csrInfo p s attrs)) = .ok sig) :
    serializeRequest p s attrs sign =
      .ok (.seq [csrInfo p s attrs, algIdent s.alg, .bitStringOctets sig]) := by
  unfold serializeRequest signDer
  simp [h, hv, hp, hs]

/-- the request always carries version 0, the subject, the requester's SubjectPublicKeyInfo
    and the `[0]` attributes field (present even when empty) -/
theorem csr_shape (p : CertParams) (s : PubKey) (attrs : List Attribute) :
    csrInfo p s attrs =
      .seq [.intOfNat 0, writeDistinguishedName p.dn, spkiNode s,
            .cons 2 0 (sortByEncoding (csrAttributes p attrs))] := rfl

/-- at most one extension request, present iff one of the four CSR-expressible extension
    fields is non-empty; every caller attribute follows, values embedded as given -/
theorem csr_attributes (p : CertParams) (attrs : List Attribute) :
    csrAttributes p attrs =
      (if writeExtensionRequest p then [extensionRequestAttr p] else []) ++
      attrs.map (fun a => Asn1.seq [.oid a.oid, .raw a.values]) := rfl

theorem extension_request_iff (p : CertParams) :
    writeExtensionRequest p = true ↔
      (p.keyUsages ≠ [] ∨ p.sans ≠ [] ∨ p.ekus ≠ [] ∨ p.customExts ≠ []) := by
  unfold writeExtensionRequest
  simp only [Bool.or_eq_true, Bool.not_eq_true', List.isEmpty_eq_false_iff, ne_eq]
  constructor
  · intro h
    rcases h with ((h | h) | h) | h
    · exact Or.inl h
    · exact Or.inr (Or.inl h)
    · exact Or.inr (Or.inr (Or.inl h))
    · exact Or.inr (Or.inr (Or.inr h))
  · intro h
    rcases h with h | h | h | h
    · exact Or.inl (Or.inl (Or.inl h))
    · exact Or.inl (Or.inl (Or.inr h))
    · exact Or.inl (Or.inr h)
    · exact Or.inr h

/-- caller-supplied attribute values are embedded byte for byte -/
theorem attribute_values_verbatim (a : Attribute) :
    encode (attrNode a) = encode (.cons 0 16 [.oid a.oid, .raw a.values]) ∧
    encode (Asn1.raw a.values) = a.values := ⟨rfl, rfl⟩

/-- "each caller-supplied attribute value is the DER encoding of a SET": the witness `vals`
    gives, for each attribute, a tree that encodes to the supplied bytes -/
abbrev ValuesAreDer := Proofs.CsrDecode.ValuesAreDer

/-- **a CSR says exactly what its parameters say.**  For every parameter set that is not
    refused, every subject key and every list of caller attributes whose values are DER SETs:
    strict DER decoding of the certificationRequestInfo followed by the RFC 2986 readers yields
    version 0, the subject name as the enumeration of the name, the RFC SubjectPublicKeyInfo,
    every caller attribute with its value bytes verbatim (as many times as supplied), and —
    exactly when a key usage, SAN, EKU or custom extension is requested — exactly one further
    attribute, the extension request, whose extensions are exactly the requested ones; otherwise
    no further attribute.  The attribute SET OF is written sorted, so the statement is up to
    permutation, which the clause list counts occurrence by occurrence.  Any number of
    attributes, in any order, with repetitions. -/
theorem csr_decodes_to_request (i : Spec.CsrInputs) (vals : Attribute → Asn1)
    (hv : ValuesAreDer i.attrs vals)
    (hnp : csrPanics i.p i.attrs = false)
    (hc : ∀ e ∈ i.p.customExts, e.oid ∉ Proofs.X509.knownOids)
    (hsize : (encode (csrInfo i.p i.subject i.attrs)).length < 256 ^ 126) :
    Spec.c07Clauses i (encode (csrInfo i.p i.subject i.attrs)) = [] :=
  Proofs.CsrDecode.c07_clauses_hold i vals hv hnp hc hsize

/-- the typed record itself: the decoded attributes are the sorted attribute nodes, read -/
theorem csr_decodes_to_record (i : Spec.CsrInputs) (vals : Attribute → Asn1)
    (hv : ValuesAreDer i.attrs vals)
    (hnp : csrPanics i.p i.attrs = false)
    (hsize : (encode (csrInfo i.p i.subject i.attrs)).length < 256 ^ 126) :
    Spec.decodeCsrInfo (encode (csrInfo i.p i.subject i.attrs)) = some (Proofs.CsrDecode.modelCsr i) :=
  Proofs.CsrDecode.csr_decodes i vals hv hnp hsize

/-- and they are a permutation of (the extension request, if any) followed by the caller's -/
theorem csr_attributes_are_a_permutation (i : Spec.CsrInputs)
    (hoids : ∀ a ∈ i.attrs, oidOk a.oid = true) :
    (Proofs.CsrDecode.modelCsr i).attrs.Perm
      (Proofs.CsrDecode.extReqSem i ++ Proofs.CsrDecode.callerAttrs i) :=
  Proofs.CsrDecode.attrs_perm i hoids

/-- stated on the public entry point -/
theorem issued_csr_decodes_to_request (i : Spec.CsrInputs) (vals : Attribute → Asn1)
    (sign : Signer) (t : Asn1)
    (h : serializeRequest i.p i.subject i.attrs sign = .ok t)
    (hv : ValuesAreDer i.attrs vals)
    (hc : ∀ e ∈ i.p.customExts, e.oid ∉ Proofs.X509.knownOids)
    (hsize : (encode (csrInfo i.p i.subject i.attrs)).length < 256 ^ 126) :
    Spec.c07Clauses i (encode (csrInfo i.p i.subject i.attrs)) = [] := by
  unfold serializeRequest at h
  split at h
  · cases h
  · cases hinv : csrInvalid i.p i.attrs with
    | some e => simp [hinv] at h
    | none =>
      simp only [hinv] at h
      split at h
      · cases h
      · rename_i hnp
        exact csr_decodes_to_request i vals hv (by simpa using hnp) hc hsize

/-- **parsing a generated request back returns what it was generated from** (the round-trip
    clause).  For every parameter set without custom extensions (the parser documents those as
    unsupported), every list of caller attributes other than an extension request, every key,
    signature and third-party verifier: whatever `CertificateSigningRequestParams::from_der`
    returns for the generated request has the generating subject name, the key usages as a set
    (in declaration order), the subject alternative names, exactly the standard purposes among
    the requested extended key usages, and the requester's public key with its algorithm.
    Alternative names are values of the validated types (IP addresses of 4 or 16 octets,
    otherName text valid UTF-8). -/
theorem csr_round_trip (p521 crypto : Bool) (verify : Bytes → Bytes → Bytes → Bytes → Bool)
    (i : Spec.CsrInputs) (vals : Attribute → Asn1) (sig : Bytes) (r : CsrParsed)
    (hv : ValuesAreDer i.attrs vals)
    (hnp : csrPanics i.p i.attrs = false)
    (hne : ∀ a ∈ i.attrs, a.oid ≠ extensionRequestOid)
    (hcustom : i.p.customExts = [])
    (hip : ∀ o, SanType.ip o ∈ i.p.sans → o.length = 4 ∨ o.length = 16)
    (hother : ∀ oid v, SanType.otherName oid v ∈ i.p.sans → Spec.utf8Valid v = true ∧ ∀ x ∈ oid, x < 2 ^ 64)
    (hsize : (encode (Proofs.Canon.Csr.signedCsr i sig)).length < 256 ^ 126)
    (h : parseCsr p521 crypto verify (encode (Proofs.Canon.Csr.signedCsr i sig)) = .ok r) :
    Spec.reqName r.params.dn.iter = Spec.reqName i.p.dn.iter ∧
    r.params.keyUsages = KeyUsage.all.filter (fun k => i.p.keyUsages.contains k) ∧
    r.params.sans = i.p.sans ∧
    (∀ e, e ∈ r.params.ekus ↔ (e ∈ stdEkus ∧ ∃ x ∈ i.p.ekus, Spec.rfcEkuOid x = e.oid)) ∧
    r.key = i.subject := by
  obtain ⟨h1, h2, h3, h4, h5⟩ :=
    Proofs.CsrRoundTrip.parse_of_generated p521 crypto verify i vals sig r hv hnp hne hcustom hsize h
  refine ⟨h1, h2, ?_, h4, h5⟩
  rw [Proofs.ImportDecode.importSans_req i.p.sans hip hother] at h3
  injection h3 with h3
  exact h3.symm

/-- the same request is what `serialize_request_with_attributes` returns: the signed tree of
    C01 around the certificationRequestInfo -/
theorem serialized_request_is_signedCsr (i : Spec.CsrInputs) (sign : Signer) (t : Asn1)
    (h : serializeRequest i.p i.subject i.attrs sign = .ok t) :
    ∃ sig, t = Proofs.Canon.Csr.signedCsr i sig ∧
      sign (encode (csrInfo i.p i.subject i.attrs)) = .ok sig := by
  unfold serializeRequest at h
  split at h
  · cases h
  · cases hinv : csrInvalid i.p i.attrs with
    | some e => simp [hinv] at h
    | none =>
      simp only [hinv] at h
      split at h
      · cases h
      · unfold signDer at h
        cases hs : sign (encode (csrInfo i.p i.subject i.attrs)) with
        | error e => simp [hs] at h
        | ok sig =>
          simp only [hs] at h
          exact ⟨sig, by cases h; rfl, rfl⟩

/-! non-vacuity of `csr_round_trip`: a request with a name, a SAN, repeated key usages and two
    extended key usages parses back (the hypothesis `h` is satisfiable) -/
def exRt : Spec.CsrInputs :=
  { p := { (default : CertParams) with
           sans := [.dns [0x61], .ip [10, 0, 0, 1]],
           keyUsages := [.keyEncipherment, .digitalSignature, .keyEncipherment],
           ekus := [.clientAuth, .serverAuth],
           dn := ((DistinguishedName.new.push .org (.printable [0x4f])).push .commonName (.utf8 [0x61])) },
    subject := ⟨.ed25519, List.replicate 32 7⟩, attrs := [] }

example : (match parseCsr false true (fun _ _ _ _ => true)
      (encode (Proofs.Canon.Csr.signedCsr exRt (List.replicate 64 9))) with
    | .ok r => r.params.keyUsages == [.digitalSignature, .keyEncipherment] &&
        r.params.ekus == [.serverAuth, .clientAuth] && r.key == exRt.subject &&
        r.params.sans == exRt.p.sans
    | .error _ => false) = true := by decide +kernel

/-! non-vacuity of `csr_decodes_to_request`: two caller attributes given out of sorted order
    (one of them twice), a SAN, a repeated key usage and a custom extension -/
def exVal (b : Bytes) : Asn1 := .cons 0 17 [.prim 0 12 b]
def exAttrs : List Attribute :=
  [⟨[1, 2, 840, 113549, 1, 9, 7], encode (exVal [0x7a, 0x7a])⟩,
   ⟨[1, 2, 840, 113549, 1, 9, 2], encode (exVal [0x61])⟩,
   ⟨[1, 2, 840, 113549, 1, 9, 7], encode (exVal [0x7a, 0x7a])⟩]
def exVals (a : Attribute) : Asn1 :=
  if a.values = encode (exVal [0x61]) then exVal [0x61] else exVal [0x7a, 0x7a]
def exCsr : Spec.CsrInputs :=
  { p := { (default : CertParams) with
           sans := [.dns [0x61]], keyUsages := [.digitalSignature, .digitalSignature],
           customExts := [⟨[1, 2, 3, 4], false, [5, 0]⟩],
           dn := (DistinguishedName.new.push .commonName (.utf8 [0x61])) },
    subject := ⟨.ecdsaP256, [4, 1, 2]⟩, attrs := exAttrs }

example : ValuesAreDer exAttrs exVals where
  shape := by intro a _; unfold exVals; split <;> exact ⟨_, rfl⟩
  tags := by intro a _; unfold exVals; split <;> decide
  enc := by
    intro a ha
    simp only [exAttrs, List.mem_cons, List.not_mem_nil, or_false] at ha
    rcases ha with rfl | rfl | rfl <;> decide
example : csrPanics exCsr.p exCsr.attrs = false := by decide +kernel
example : ∀ e ∈ exCsr.p.customExts, e.oid ∉ Proofs.X509.knownOids := by decide
example : (encode (csrInfo exCsr.p exCsr.subject exCsr.attrs)).length < 256 ^ 126 := by
  rw [Proofs.CsrDecode.csrInfo_length]; decide +kernel

/-! non-vacuity -/
example : csrUnsupported { (default : CertParams) with useAki := true } = true := by decide
example : csrUnsupported (default : CertParams) = false := by decide

end Rcgen.Theorems.C07
