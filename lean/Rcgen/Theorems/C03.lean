import Rcgen.Theorems.C20
import Rcgen.Model.Import
import Rcgen.Spec.Props
/-
  C03 — issued certificates chain to their issuer, including imported CAs.
  Model: `tbsCertificate` (issuer name = field 3, subject = field 5), `akiValue`, `skiExt`,
  `importName` / `importCa` (Model/Import.lean).
  What OpenSSL/webpki then accept is observed by the check, not proved.
-/
namespace Rcgen.Theorems.C03
open Rcgen Rcgen.Model Rcgen.Spec Rcgen.Model.DistinguishedName

/-- the view of an issuer certificate that `signed_by` takes: its params' name, key-id method
    and key usages, plus the signing key -/
def issuerView (ip : CertParams) (key : PubKey) : Issuer :=
  { dn := ip.dn, keyIdMethod := ip.keyIdMethod, keyUsages := ip.keyUsages, key := key }

/-- **issuer name bytes**: the issuer field of everything issued from a certificate value is
    the same tree — hence the same bytes — as the subject field of that certificate, whatever
    the name (any number of attributes, any string kinds, custom OIDs) -/
theorem issuer_name_bytes (H : Hashes) (p ip : CertParams) (s key : PubKey) (anyIssuer : Issuer) :
    (tbsCertificateFields H p s (issuerView ip key))[3]? =
      (tbsCertificateFields H ip key anyIssuer)[5]? := by
  simp [tbsCertificateFields, issuerView]

/-- **AKI = issuer SKI**: when the signing key is the issuer certificate's subject key, the
    authority key identifier written into the child is the key identifier the issuer
    certificate carries as its subject key identifier — for all 4×4 method pairs -/
theorem aki_eq_issuer_ski (H : Hashes) (ip : CertParams) (key : PubKey) :
    akiValue H (issuerView ip key) = ip.keyIdMethod.derive H (spkiDer key) := by
  unfold akiValue issuerView
  cases ip.keyIdMethod <;> rfl

theorem aki_ext_carries_it (H : Hashes) (p ip : CertParams) (s key : PubKey) (h : p.useAki = true) :
    ∃ rest, certExtensions H p s (issuerView ip key) =
      akiExt (ip.keyIdMethod.derive H (spkiDer key)) :: rest := by
  unfold certExtensions
  rw [h, aki_eq_issuer_ski]
  exact ⟨_, rfl⟩

theorem ski_of_issuer_cert (H : Hashes) (ip : CertParams) (key : PubKey) (pl : Option Nat)
    (h : ip.isCa = .ca pl) :
    ∃ bc, caExts H ip key = [extOf [2, 5, 29, 14] false (.octets (ip.keyIdMethod.derive H (spkiDer key))), bc] := by
  unfold caExts skiExt; rw [h]; exact ⟨_, rfl⟩

/-! ### imported CAs: the name is preserved exactly, or the import fails -/

theorem fromOid_oid (o : List Nat) : rfcAttrOid (DnType.fromOid o) = o := by
  unfold DnType.fromOid
  split
  · rename_i h; rw [h]; rfl
  · split
    · rename_i h; rw [h]; rfl
    · split
      · rename_i h; rw [h]; rfl
      · split
        · rename_i h; rw [h]; rfl
        · split
          · rename_i h; rw [h]; rfl
          · split
            · rename_i h; rw [h]; rfl
            · rfl

theorem importValue_attr (a : AttrTV) (v : DnValue) (h : importValue a = .ok v) :
    reqAttr (DnType.fromOid a.oid, v) = a := by
  obtain ⟨oid, tag, value⟩ := a
  unfold importValue at h
  simp only at h
  unfold reqAttr
  simp only [fromOid_oid]
  split at h
  · rename_i ht; subst ht
    cases hb : bmpFromUtf16be value with
    | none => simp [hb] at h
    | some b =>
      simp only [hb] at h
      injection h with h; subst h
      have : b = value := by
        unfold bmpFromUtf16be at hb
        split at hb
        · simp at hb
        · split at hb <;> simp_all
      subst this; rfl
  · split at h
    · rename_i ht; subst ht
      split at h
      · cases h
      · split at h
        · injection h with h; subst h; rfl
        · cases h
    · split at h
      · rename_i ht; subst ht
        split at h
        · cases h
        · split at h
          · injection h with h; subst h; rfl
          · cases h
      · split at h
        · rename_i ht; subst ht
          split at h
          · cases h
          · split at h
            · injection h with h; subst h; rfl
            · cases h
        · split at h
          · rename_i ht; subst ht
            cases hb : universalFromUtf32be value with
            | none => simp [hb] at h
            | some b =>
              simp only [hb] at h
              injection h with h; subst h
              have : b = value := by
                unfold universalFromUtf32be at hb
                split at hb
                · simp at hb
                · split at hb <;> simp_all
              subst this; rfl
          · split at h
            · rename_i ht; subst ht
              split at h
              · injection h with h; subst h; rfl
              · cases h
            · cases h

theorem absPush_absent (a : Entries) (ty : DnType) (v : DnValue) (h : ty ∉ keys a) :
    absPush a ty v = a ++ [(ty, v)] := by
  induction a with
  | nil => rfl
  | cons e es ih =>
    obtain ⟨k, w⟩ := e
    simp only [keys, List.map_cons, List.mem_cons, not_or] at h
    simp only [absPush]
    have : ¬ k = ty := fun e => h.1 e.symm
    simp only [this, if_false, List.cons_append]
    rw [ih h.2]

theorem importNameFrom_spec (n : Name) (dn dn' : DistinguishedName) (hinv : Inv dn)
    (h : importNameFrom dn n = .ok dn') :
    Inv dn' ∧ reqName dn'.iter = reqName dn.iter ++ n := by
  induction n generalizing dn with
  | nil =>
    simp only [importNameFrom] at h
    injection h with h; subst h
    exact ⟨hinv, by simp⟩
  | cons rdn rest ih =>
    simp only [importNameFrom] at h
    split at h
    · rename_i a
      split at h
      · cases h
      · cases hv : importValue a with
        | error e => simp [hv] at h
        | ok v =>
        simp only [hv] at h
        split at h
        · cases h
        · rename_i hck
          have hpush := C20.refines_push dn hinv (DnType.fromOid a.oid) v
          have hinv' := C20.inv_push dn hinv (DnType.fromOid a.oid) v
          obtain ⟨i1, i2⟩ := ih _ hinv' h
          refine ⟨i1, ?_⟩
          rw [i2, hpush]
          have habs : DnType.fromOid a.oid ∉ keys dn.iter := by
            intro hmem
            have := (C20.iter_is_insertion_order dn hinv).2.2 (DnType.fromOid a.oid)
            have hs := this.1 hmem
            simp only [containsKey] at hck
            exact hck hs
          rw [absPush_absent _ _ _ habs]
          simp only [reqName, List.map_append, List.map_cons, List.map_nil, List.append_assoc,
            List.singleton_append, importValue_attr a v hv]
    · cases h

/-- **import preserves the name or fails**: whenever importing a decoded name succeeds, the
    imported name re-encodes to exactly the decoded one — any number of RDNs, every string
    kind, custom OIDs; a name that repeats an attribute type is refused, never collapsed -/
theorem import_preserves_or_fails (n : Name) (dn : DistinguishedName) (h : importName n = .ok dn) :
    reqName dn.iter = n := by
  have := (importNameFrom_spec n DistinguishedName.new dn C20.inv_new h).2
  simpa [reqName, DistinguishedName.new, iter, iterFrom] using this

/-- a repeated attribute type makes the import fail (the pre-fix behaviour kept the last value) -/
theorem repeated_type_refused :
    importName [[⟨[0,9,2342,19200300,100,1,25], 22, [99,111,109]⟩],
                [⟨[0,9,2342,19200300,100,1,25], 22, [101,120]⟩]] = .error .couldNotParseCertificate := by
  rfl

/-- the SKI carried by an imported certificate becomes the fixed key identifier, so the AKI of
    everything later issued from the import equals the original certificate's SKI -/
theorem import_captures_ski (crypto : Bool) (c : TbsCert) (b : Bytes) (rest : List Bytes)
    (h : c.exts.filterMap skiOf = b :: rest) :
    importKid crypto c = .ok (.preSpecified b) := by
  unfold importKid; rw [h]

/-! non-vacuity -/
example : importName [[⟨[2,5,4,3], 12, [97]⟩], [⟨[2,5,4,10], 19, [66]⟩]] =
    .ok ((DistinguishedName.new.push .commonName (.utf8 [97])).push .org (.printable [66])) := by
  rfl

end Rcgen.Theorems.C03
