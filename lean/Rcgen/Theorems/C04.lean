import Rcgen.Theorems.C09
import Rcgen.Theorems.C02
import Rcgen.Spec.X509
import Rcgen.Proofs.Canon
import Rcgen.Proofs.Alphabets
import Rcgen.Proofs.Utf8
/-
  C04 — everything emitted as DER is canonical DER.
  The TLV layer (definite minimal lengths, low tag numbers, no trailing bytes) is the generic
  theorem `decodeAll_encode` (Proofs/DerRoundTrip.lean): every well-formed tree the writers
  produce is accepted by the strict decoder and decodes to itself.  This file adds the
  content rules, leaf by leaf and for the SET OF ordering, and the verbatim embedding of
  caller-supplied DER.
-/
namespace Rcgen.Theorems.C04
open Rcgen Rcgen.Model Rcgen.Spec

/-- strict TLV layer: whatever tree a writer produces, its encoding is accepted by the strict
    DER decoder, with nothing left over, and decodes to the same tree -/
theorem emitted_tlv_strict (t : Asn1) (h : t.WF) : decodeAll (encode t) = some t :=
  decodeAll_encode t h

theorem stripZeros_head (bs : Bytes) : ∀ b r, stripZeros bs = b :: r → b ≠ 0 := by
  induction bs with
  | nil => intro b r h; simp [stripZeros] at h
  | cons x xs ih =>
    intro b r h
    simp only [stripZeros] at h
    split at h
    · exact ih b r h
    · rename_i hx; injection h with h1 _; rw [← h1]; exact hx

/-- INTEGERs from byte strings (serial numbers, CRL numbers, revoked serials) are minimal:
    no redundant leading 00, whatever leading zeros / high bit / emptiness the caller passed -/
theorem int_content_minimal (bs : Bytes) : intMinimal (intContentOfBytes bs) = true := by
  unfold intContentOfBytes
  cases hs : stripZeros bs with
  | nil => rfl
  | cons b r =>
    have hb := stripZeros_head bs b r hs
    have hb' : b.toNat ≠ 0 := fun h => hb (UInt8.toNat_inj.1 (by simpa using h))
    simp only
    split
    · rename_i h128
      simp only [intMinimal]
      have : ¬ ((0 : UInt8).toNat == 0 && decide (b.toNat < 128)) = true := by simp; omega
      have h2 : ((0 : UInt8).toNat == 255) = false := by decide
      simp [h2]; omega
    · rename_i h128
      cases r with
      | nil => rfl
      | cons c r' =>
        simp only [intMinimal]
        have h1 : (b.toNat == 0) = false := by simpa using hb'
        have h2 : (b.toNat == 255) = false := by simp; omega
        simp [h1, h2]

theorem bytesLe_refl (a : Bytes) : bytesLe a a = true := by
  induction a with
  | nil => rfl
  | cons x xs ih => simp [bytesLe, ih]

theorem bytesLe_total (a b : Bytes) : (bytesLe a b || bytesLe b a) = true := by
  induction a generalizing b with
  | nil => simp [bytesLe]
  | cons x xs ih =>
    cases b with
    | nil => simp [bytesLe]
    | cons y ys =>
      simp only [bytesLe]
      by_cases h1 : x < y
      · simp [h1]
      · by_cases h2 : y < x
        · simp [h1, h2]
        · simp only [h1, h2, if_false]; exact ih ys

theorem bytesLe_trans (a b c : Bytes) (h1 : bytesLe a b = true) (h2 : bytesLe b c = true) :
    bytesLe a c = true := by
  induction a generalizing b c with
  | nil => simp [bytesLe]
  | cons x xs ih =>
    cases b with
    | nil => simp [bytesLe] at h1
    | cons y ys =>
      cases c with
      | nil => simp [bytesLe] at h2
      | cons z zs =>
        simp only [bytesLe] at h1 h2 ⊢
        by_cases hxy : x < y
        · by_cases hyz : y < z
          · have : x < z := UInt8.lt_trans hxy hyz
            simp [this]
          · by_cases hzy : z < y
            · simp [hyz, hzy] at h2
            · have : y = z := UInt8.le_antisymm (UInt8.not_lt.1 hzy) (UInt8.not_lt.1 hyz)
              subst this; simp [hxy]
        · by_cases hyx : y < x
          · simp [hxy, hyx] at h1
          · have hxy' : x = y := UInt8.le_antisymm (UInt8.not_lt.1 hyx) (UInt8.not_lt.1 hxy)
            subst hxy'
            simp only [hxy, if_false] at h1
            by_cases hxz : x < z
            · simp [hxz]
            · by_cases hzx : z < x
              · simp [hxz, hzx] at h2
              · simp only [hxz, hzx, if_false] at h2 ⊢
                exact ih ys zs h1 h2

theorem sortedBy_of_pairwise (l : List Bytes)
    (h : l.Pairwise (fun a b => bytesLe a b = true)) : sortedBy bytesLe l = true := by
  induction l with
  | nil => rfl
  | cons a l ih =>
    cases l with
    | nil => rfl
    | cons b l' =>
      simp only [sortedBy, Bool.and_eq_true]
      rw [List.pairwise_cons] at h
      exact ⟨h.1 b (by simp), ih h.2⟩

/-- **SET OF is sorted**: for every list of attributes (any order, duplicates, any count) the
    elements of the CSR attribute set are emitted in ascending order of their encodings -/
theorem set_of_sorted (kids : List Asn1) :
    sortedBy bytesLe ((sortByEncoding kids).map encode) = true := by
  apply sortedBy_of_pairwise
  unfold sortByEncoding
  have hp := @List.pairwise_mergeSort Asn1 (fun a b => bytesLe (encode a) (encode b))
    (fun a b c h1 h2 => bytesLe_trans _ _ _ h1 h2) (fun a b => bytesLe_total _ _) kids
  exact List.Pairwise.map encode (fun a b h => h) hp

/-- and nothing is lost or invented by the sort -/
theorem set_of_perm (kids : List Asn1) : (sortByEncoding kids).Perm kids :=
  List.mergeSort_perm _ _

/-- whole-octet BIT STRINGs (keys, signatures): zero unused bits -/
theorem bit_string_octets_canonical (bs : Bytes) :
    bitStringCanonical (bitStringContent bs (8 * bs.length)) = true := by
  rw [bitStringContent_octets]
  unfold bitStringCanonical
  cases h : bs.getLast? with
  | none => simp [h]
  | some v => simp [h, Nat.mod_one]

/-- BOOLEAN TRUE is written as FF, and FALSE is never written where it is the DEFAULT:
    `critical` only when true, `cA` only when true -/
theorem booleans_canonical :
    Asn1.bool true = .prim 0 1 [255] ∧
    (∀ oid v, extNode oid false v = .cons 0 16 [.oid oid, .octets v]) ∧
    (∀ H p s, p.isCa = .explicitNoCa →
      ∃ ski, caExts H p s = [ski, extOf [2, 5, 29, 19] true (.cons 0 16 [])]) := by
  refine ⟨rfl, fun _ _ => rfl, ?_⟩
  intro H p s h
  unfold caExts; rw [h]; exact ⟨_, rfl⟩

/-- time strings are in the exact RFC 5280 forms (they parse under the strict parsers) -/
theorem time_canonical (dt : DateTime) (hy : 0 ≤ C09.utcYear dt ∧ C09.utcYear dt ≤ 9999) :
    canonical (writeTime dt) = true := by
  have h := C09.time_same_instant dt hy
  rcases C09.time_form dt with ⟨c, hc, _⟩ | ⟨c, hc, _⟩
  · rw [hc] at h ⊢
    simp only [asTime, Option.map_eq_some_iff] at h
    obtain ⟨t, ht, _⟩ := h
    simp [canonical, primCanonical, ht]
  · rw [hc] at h ⊢
    simp only [asTime, Option.map_eq_some_iff] at h
    obtain ⟨t, ht, _⟩ := h
    simp [canonical, primCanonical, ht]

/-- caller-supplied pre-encoded DER is embedded byte for byte: custom extension content is the
    content of the extension's OCTET STRING; CSR attribute values are spliced in unchanged -/
theorem raw_passthrough (e : CustomExtension) (a : Attribute) :
    customExtNode e = .cons 0 16 (.oid e.oid :: ((if e.critical then [Asn1.bool true] else []) ++
      [.prim 0 4 e.content])) ∧
    encode (attrNode a) =
      identByte 0 true 16 :: (encLen (encode (Asn1.oid a.oid) ++ a.values).length ++
        (encode (Asn1.oid a.oid) ++ a.values)) := by
  constructor
  · rfl
  · simp [attrNode, Asn1.seq, encode, encodeList]

/-- KeyUsage named-bit lists are minimal for all 512 subsets: `C02.key_usage_bits_all_subsets` -/
theorem key_usage_minimal :
    (List.range 512).all (fun m => m == 0 ||
      (match keyUsageValue (C02.kuSubset m) with
       | .prim 0 3 c => namedBitsMinimal c
       | _ => false)) = true := by decide +kernel

/-! ### whole artefacts -/

/-- what the string types guarantee (C13: their constructors accept exactly these alphabets):
    every attribute value lies in the alphabet of the tag it is written under -/
abbrev nameCanon := Proofs.Canon.nameCanon
abbrev paramsCanon := Proofs.Canon.paramsCanon

/-- the alphabet hypothesis of the theorems below is what the string-type constructors
    establish (C13): a value any of them accepts lies in the X.680 alphabet of the tag it is
    written under; and the UTF-8 bytes of any text (Rust's `String`) are well-formed UTF-8 —
    no overlong form, no surrogate, nothing above U+10FFFF (`Proofs.Utf8`). -/
theorem constructed_values_in_alphabet :
    (∀ s b, printableCtor s = some b → Proofs.Canon.valueCanon (.printable b) = true) ∧
    (∀ s b, ia5Ctor s = some b → Proofs.Canon.valueCanon (.ia5 b) = true) ∧
    (∀ s b, teletexCtor s = some b → Proofs.Canon.valueCanon (.teletex b) = true) ∧
    (∀ b b', bmpFromUtf16be b = some b' → Proofs.Canon.valueCanon (.bmp b') = true) ∧
    (∀ b b', universalFromUtf32be b = some b' → Proofs.Canon.valueCanon (.universal b') = true) ∧
    (∀ s : List Char, Proofs.Canon.valueCanon (.utf8 (utf8 s)) = true) :=
  ⟨Proofs.Alphabets.printable_canon, Proofs.Alphabets.ia5_canon, Proofs.Alphabets.teletex_canon,
   Proofs.Alphabets.bmp_canon, Proofs.Alphabets.universal_canon, Proofs.Utf8.utf8Valid_utf8⟩

/-- **every certificate is canonical DER, outermost element to the inside of every extension
    value**: for every parameter set with which generation succeeds, every key, issuer, hash
    family and signature, the signed certificate passes the whole-artefact checker
    `Spec.certCanonical` — strict TLV (definite minimal lengths, no trailing bytes), minimal
    INTEGERs and OIDs, TRUE as FF, DEFAULT FALSE absent (critical, cA), BIT STRING padding zero
    and the key-usage named-bit list minimal for every list of usages, single-valued RDN SETs,
    strings within the alphabet of their tag, time values in the RFC 5280 form and choice, and
    every known extension's value itself canonical.  Caller-supplied extensions are carried
    under identifiers the checker does not open. -/
theorem cert_is_canonical (i : Spec.CertInputs) (sig : Bytes)
    (hinv : certInvalid i.p i.issuer = none)
    (hnp : certPanics i.p i.issuer = false)
    (hcu : ∀ e ∈ i.p.customExts, e.oid ∉ Proofs.X509.knownOids)
    (hcanon : paramsCanon i.p i.issuer = true)
    (hsize : (encode (Proofs.Canon.signedCert i sig)).length < 256 ^ 126) :
    certCanonical (encode (Proofs.Canon.signedCert i sig)) = true :=
  Proofs.Canon.cert_canonical i sig hinv hnp hcu hcanon hsize

/-- **every CRL is canonical DER**, entries and both extension levels included -/
theorem crl_is_canonical (i : Spec.CrlInputs) (sig : Bytes)
    (hinv : crlInvalid i.p i.issuer = none)
    (hnp : crlPanics i.p i.issuer = false)
    (hcanon : nameCanon i.issuer.dn = true)
    (hsize : (encode (Proofs.Canon.signedCrl i sig)).length < 256 ^ 126) :
    crlCanonical (encode (Proofs.Canon.signedCrl i sig)) = true :=
  Proofs.Canon.crl_canonical i sig hinv hnp hcanon hsize

/-- **every CSR is canonical DER**: the attribute SET OF is sorted for every attribute list,
    the extension request is canonical, and caller-supplied attribute values — embedded byte
    for byte — are as canonical as the caller made them -/
theorem csr_is_canonical (i : Spec.CsrInputs) (vals : Attribute → Asn1) (sig : Bytes)
    (hv : Proofs.CsrDecode.ValuesAreDer i.attrs vals)
    (hvc : ∀ a ∈ i.attrs, canonical (vals a) = true)
    (hne : ∀ a ∈ i.attrs, a.oid ≠ [1, 2, 840, 113549, 1, 9, 14])
    (hun : csrUnsupported i.p = false)
    (hnp : csrPanics i.p i.attrs = false)
    (hcu : ∀ e ∈ i.p.customExts, e.oid ∉ Proofs.X509.knownOids)
    (hcanon : nameCanon i.p.dn = true) (hsan : i.p.sans.all Proofs.Canon.sanCanon = true)
    (hsize : (encode (Proofs.Canon.Csr.signedCsr i sig)).length < 256 ^ 126) :
    csrCanonical (encode (Proofs.Canon.Csr.signedCsr i sig)) = true :=
  Proofs.Canon.Csr.csr_canonical i vals sig hv hvc hne hun hnp hcu hcanon hsan hsize

/-- the exported SubjectPublicKeyInfo is canonical DER for every algorithm and key -/
theorem spki_is_canonical (k : PubKey) (hsize : (spkiDer k).length < 256 ^ 126) :
    spkiCanonical (spkiDer k) = true := by
  unfold spkiCanonical spkiDer
  rw [decodeAll_encode _ (wf_of_tagsOk _ (Proofs.CertDecode.tagsOk_spki k) hsize)]
  exact Proofs.Canon.canonical_spki k

/-- OBJECT IDENTIFIERs are minimal for every component list the writer accepts -/
theorem oid_minimal (arcs : List Nat) (h : oidOk arcs = true) :
    oidMinimal (oidContent arcs) = true := Proofs.Leaf.oidMinimal_oidContent arcs h

/-- the KeyUsage BIT STRING is canonical and its named-bit list minimal for *every* list of
    usages (the 512-row table lifted) -/
theorem key_usage_canonical (kus : List KeyUsage) (hne : kus ≠ []) :
    canonical (keyUsageValue kus) = true ∧ kuValueOk (keyUsageValue kus) = true :=
  ⟨Proofs.Canon.canonical_kuValue kus, Proofs.Canon.kuValueOk_value kus hne⟩

/-! non-vacuity: the certificate, CRL and CSR of the C02 / C08 / C07 examples meet the
    hypotheses of the whole-artefact theorems -/
example : paramsCanon C02.exInputs.p C02.exInputs.issuer = true := by decide +kernel
example : (encode (Proofs.Canon.signedCert C02.exInputs [1, 2, 3])).length < 256 ^ 126 := by
  decide +kernel

/-! non-vacuity -/
example : intContentOfBytes [0, 0, 0x80, 1] = [0, 0x80, 1] := by decide
example : sortedBy bytesLe ((sortByEncoding [.octets [2], .octets [1], .null]).map encode) = true :=
  set_of_sorted _

end Rcgen.Theorems.C04
