import Rcgen.Theorems.C01
import Rcgen.Model.Pem
/-
  C19 — private key material never leaks into public outputs or diagnostics.
  Model: a key pair is (public part, algorithm, private document, back-end rendering of the
  *public* object, signer).  Every public observer is written out below; the theorem is
  non-interference on the private document: replacing it changes no observer other than the
  three explicit export functions.  What ring / aws-lc-rs print in their own `Debug`, and
  whether a signature leaks the key (cryptography), are observed by the scan, not proved.
-/
namespace Rcgen.Theorems.C19
open Rcgen Rcgen.Model

structure KeyPairM where
  pub : PubKey
  /-- `serialized_der`: the private key document -/
  doc : Bytes
  /-- the back end's `Debug` of its key object (prints the public key only) -/
  backendDebug : String
  sign : Signer

def algDebugName : SigAlg → String
  | .rsaSha256 => "PKCS_RSA_SHA256" | .rsaSha384 => "PKCS_RSA_SHA384"
  | .rsaSha512 => "PKCS_RSA_SHA512" | .ecdsaP256 => "PKCS_ECDSA_P256_SHA256"
  | .ecdsaP384 => "PKCS_ECDSA_P384_SHA384" | .ecdsaP521 => "PKCS_ECDSA_P521_SHA512"
  | .ed25519 => "PKCS_ED25519"

/-- key_pair.rs:73-81 `impl Debug for KeyPair` -/
def debugText (k : KeyPairM) : String :=
  "KeyPair { kind: " ++ k.backendDebug ++ ", alg: " ++ algDebugName k.pub.alg ++
  ", serialized_der: \"[secret key elided]\" }"

/-- everything a caller can observe of a key pair without calling an export function, and
    everything generation produces with it -/
structure PublicView where
  raw : Bytes
  spkiDer : Bytes
  spkiPem : Bytes
  debug : String
  cert : CertParams → Issuer → Out Asn1
  selfSigned : CertParams → Out Asn1
  csr : CertParams → List Attribute → Out Asn1
  crl : CrlParams → Issuer → Out Asn1

def view (H : Hashes) (k : KeyPairM) : PublicView :=
  { raw := k.pub.raw
    spkiDer := spkiDer k.pub
    spkiPem := pemEncode PemKind.publicKey.label (spkiDer k.pub)
    debug := debugText k
    cert := fun p i => issueCert {} H p k.pub i k.sign
    selfSigned := fun p => issueCert {} H p k.pub (selfIssuer p k.pub) k.sign
    csr := fun p attrs => serializeRequest p k.pub attrs k.sign
    crl := fun p i => issueCrl H p i k.sign }

/-- the explicit private-key exports: the only observers of the document -/
def serializeDer (k : KeyPairM) : Bytes := k.doc
def serializePem (k : KeyPairM) : Bytes := pemEncode PemKind.privateKey.label k.doc

/-- **non-interference**: two key pairs that differ only in the stored private document (the
    same key as PKCS#8 v1 or v2, say — or any other bytes) have identical public views -/
theorem public_outputs_ignore_doc (H : Hashes) (k : KeyPairM) (doc' : Bytes) :
    view H { k with doc := doc' } = view H k := rfl

/-- the signer's result appears only as the content of the outer BIT STRING: everything
    before it is fixed before the signer is called -/
theorem signer_result_only_in_signature (alg : SigAlg) (sign sign' : Signer) (tbs t t' : Asn1)
    (h : signDer alg sign tbs = .ok t) (h' : signDer alg sign' tbs = .ok t') :
    ∃ sig sig', t = .seq [tbs, algIdent alg, .bitStringOctets sig] ∧
      t' = .seq [tbs, algIdent alg, .bitStringOctets sig'] := by
  obtain ⟨sig, _, e⟩ := C01.signDer_signs_embedded_bytes _ _ _ _ h
  obtain ⟨sig', _, e'⟩ := C01.signDer_signs_embedded_bytes _ _ _ _ h'
  exact ⟨sig, sig', e, e'⟩

/-- error.rs `Display`: the text of an error is a function of the variant and, for the
    variants that wrap one, of the foreign library's message — never of input bytes -/
inductive ErrText where
  | fixed (variant : String)
  | foreign (variant : String) (message : String)

def render : ErrText → String
  | .fixed v => v
  | .foreign v m => v ++ ": " ++ m

theorem error_text_from_foreign_strings_only (v : String) (m : String) :
    render (.foreign v m) = v ++ ": " ++ m ∧ ∀ v', render (.fixed v') = v' := ⟨rfl, fun _ => rfl⟩

/-! non-vacuity: two different documents, one view -/
example (H : Hashes) (k : KeyPairM) : view H { k with doc := [1, 2, 3] } = view H { k with doc := [] } := rfl

end Rcgen.Theorems.C19
