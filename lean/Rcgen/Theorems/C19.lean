import Rcgen.Theorems.C01
import Rcgen.Model.Pem
import Rcgen.Model.Error
/-
  C19 — private key material never leaks into public outputs or diagnostics.
  Model: a key pair is (public part, algorithm, private document, back-end rendering of the
  *public* object, signer).  Every public observer is written out below; the theorem is
  non-interference on the private document: replacing it changes no observer other than the
  three explicit export functions.  What ring / aws-lc-rs print in their own `Debug`, and
  whether a signature leaks the key (cryptography), are observed by the scan, not proved.
-/
namespace Rcgen.Theorems.C19
open Rcgen Rcgen.Model

structure KeyPairM where
  pub : PubKey
  /-- `serialized_der`: the private key document -/
  doc : Bytes
  /-- the back end's `Debug` of its key object (prints the public key only) -/
  backendDebug : String
  sign : Signer

def algDebugName : SigAlg → String
  | .rsaSha256 => "PKCS_RSA_SHA256" | .rsaSha384 => "PKCS_RSA_SHA384"
  | .rsaSha512 => "PKCS_RSA_SHA512" | .ecdsaP256 => "PKCS_ECDSA_P256_SHA256"
  | .ecdsaP384 => "PKCS_ECDSA_P384_SHA384" | .ecdsaP521 => "PKCS_ECDSA_P521_SHA512"
  | .ed25519 => "PKCS_ED25519"

/-- key_pair.rs:73-81 `impl Debug for KeyPair` -/
def debugText (k : KeyPairM) : String :=
  "KeyPair { kind: " ++ k.backendDebug ++ ", alg: " ++ algDebugName k.pub.alg ++
  ", serialized_der: \"[secret key elided]\" }"

/-- everything a caller can observe of a key pair without calling an export function, and
    everything generation produces with it -/
structure PublicView where
  raw : Bytes
  spkiDer : Bytes
  spkiPem : Bytes
  debug : String
  cert : CertParams → Issuer → Out Asn1
  selfSigned : CertParams → Out Asn1
  csr : CertParams → List Attribute → Out Asn1
  crl : CrlParams → Issuer → Out Asn1

def view (H : Hashes) (k : KeyPairM) : PublicView :=
  { raw := k.pub.raw
    spkiDer := spkiDer k.pub
    spkiPem := pemEncode PemKind.publicKey.label (spkiDer k.pub)
    debug := debugText k
    cert := fun p i => issueCert {} H p k.pub i k.sign
    selfSigned := fun p => issueCert {} H p k.pub (selfIssuer p k.pub) k.sign
    csr := fun p attrs => serializeRequest p k.pub attrs k.sign
    crl := fun p i => issueCrl H p i k.sign }

/-- the explicit private-key exports: the only observers of the document -/
def serializeDer (k : KeyPairM) : Bytes := k.doc
def serializePem (k : KeyPairM) : Bytes := pemEncode PemKind.privateKey.label k.doc

/-- **non-interference**: two key pairs that differ only in the stored private document (the
    same key as PKCS#8 v1 or v2, say — or any other bytes) have identical public views -/
theorem public_outputs_ignore_doc (H : Hashes) (k : KeyPairM) (doc' : Bytes) :
    view H { k with doc := doc' } = view H k := rfl

/-- the signer's result appears only as the content of the outer BIT STRING: everything
    before it is fixed before the signer is called -/
theorem signer_result_only_in_signature (alg : SigAlg) (sign sign' : Signer) (tbs t t' : Asn1)
    (h : signDer alg sign tbs = .ok t) (h' : signDer alg sign' tbs = .ok t') :
    ∃ sig sig', t = .seq [tbs, algIdent alg, .bitStringOctets sig] ∧
      t' = .seq [tbs, algIdent alg, .bitStringOctets sig'] := by
  obtain ⟨sig, _, e⟩ := C01.signDer_signs_embedded_bytes _ _ _ _ h
  obtain ⟨sig', _, e'⟩ := C01.signDer_signs_embedded_bytes _ _ _ _ h'
  exact ⟨sig, sig', e, e'⟩

/-! ### error texts (Model/Error.lean = error.rs `Display`, tied to the real texts on every run) -/

/-- two error values of the same variant: equal up to their payload -/
def sameVariant : ErrorV → ErrorV → Bool
  | .invalidAsn1String a _, .invalidAsn1String b _ => a == b
  | .invalidIpAddressOctetLength _, .invalidIpAddressOctetLength _ => true
  | .ringKeyRejected _, .ringKeyRejected _ => true
  | .pemError _, .pemError _ => true
  | .x509 _, .x509 _ => true
  | a, b => a == b

/-- **the text of an error is the variant's constant text around its one payload**: nothing else
    enters it — no input bytes, no key, no state -/
theorem error_text_is_constant_around_payload (e e' : ErrorV) (h : sameVariant e e' = true) :
    e.display = e.prefix ++ e.payload ++ e.suffix ∧ e.prefix = e'.prefix ∧ e.suffix = e'.suffix := by
  refine ⟨rfl, ?_, ?_⟩ <;>
  · cases e <;> cases e' <;> simp_all [sameVariant, ErrorV.prefix, ErrorV.suffix]

/-- fifteen of the twenty variants have no payload at all: their text is a constant -/
theorem payload_free_variants (e : ErrorV) :
    (match e with
     | .invalidAsn1String _ _ | .invalidIpAddressOctetLength _ | .ringKeyRejected _ | .pemError _
     | .x509 _ => True
     | _ => e.payload = [] ∧ e.suffix = []) := by
  cases e <;> simp [ErrorV.payload, ErrorV.suffix]

/-- **what the text constructors put into `InvalidAsn1String`**: the text the caller handed to
    that very call (three types), or a fixed message (`BmpString`); `UniversalString` has no error -/
theorem str_ctor_error_payload (k : StrKind) (s : List Char) (e : ErrorV)
    (h : strCtorError k s = some e) :
    ctor k s = none ∧ (e.payload = utf8 s ∨ e.payload = badUtf16) ∧ k ≠ .universal := by
  unfold strCtorError at h
  cases hc : ctor k s with
  | some b => simp [hc] at h
  | none =>
    simp only [hc] at h
    cases k <;> simp at h <;> subst h <;> simp [ErrorV.payload]

/-- the byte-level constructors never echo the bytes they refuse -/
theorem bytes_ctor_error_payload (b : Bytes) (e : ErrorV) :
    (bmpBytesError b = some e → e = .invalidAsn1String .bmp badUtf16) ∧
    (universalBytesError b = some e → e = .invalidAsn1String .universal badUtf32) := by
  constructor
  · intro h; unfold bmpBytesError at h; split at h <;> simp at h; exact h.symm
  · intro h; unfold universalBytesError at h; split at h <;> simp at h; exact h.symm

/-- **the text kept of a PEM parser error does not depend on what the parser quotes** (the BEGIN /
    END tags and the header it found — in a damaged key file, the key's own base64) -/
theorem pem_error_ignores_quoted (b e b' e' h h' : Bytes) :
    pemErrorOf (.mismatchedTags b e) = pemErrorOf (.mismatchedTags b' e') ∧
    pemErrorOf (.invalidHeader h) = pemErrorOf (.invalidHeader h') := ⟨rfl, rfl⟩

example : (ErrorV.invalidAsn1String .printable (txt "a*")).display = txt "Invalid PrintableString: 'a*'" := by
  decide +kernel
example : (ErrorV.invalidIpAddressOctetLength 123).display =
    txt "Invalid IP address octet length of 123 bytes" := by decide +kernel
example : strCtorError .printable ['a', '*'] = some (.invalidAsn1String .printable [97, 42]) := by
  decide +kernel

/-! non-vacuity: two different documents, one view -/
example (H : Hashes) (k : KeyPairM) : view H { k with doc := [1, 2, 3] } = view H { k with doc := [] } := rfl

end Rcgen.Theorems.C19
