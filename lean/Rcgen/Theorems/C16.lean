import Rcgen.Model.Sign
import Rcgen.Theorems.C01
import Rcgen.Theorems.C11
/-
  C16 — every advertised feature combination builds and both crypto back ends agree.
  Decided by the technique: back-end agreement.  There is *one* model; the to-be-signed
  functions take no back-end argument at all — a back end enters only through the hash family
  `H` (key identifiers, automatic serial) and the signer.  So any two builds that agree with the
  model agree with each other; with explicit serial and pre-specified key identifiers (all the
  crypto-less build can express) not even `H` is consulted.
  Not decidable by a Lean model: that rustc accepts each feature set (the check builds them).
-/
namespace Rcgen.Theorems.C16
open Rcgen Rcgen.Model

/-- does a parameter set avoid every digest (what the crypto-less build can express)? -/
def digestFree (p : CertParams) (i : Issuer) : Bool :=
  p.serial.isSome &&
  (match p.keyIdMethod with | .preSpecified _ => true | _ => false) &&
  (match i.keyIdMethod with | .preSpecified _ => true | _ => false)

/-- **back-end independence of the TBS**: with explicit serial and pre-specified key
    identifiers the to-be-signed certificate is the same whatever hash family (back end) is
    plugged in -/
theorem tbs_backend_free (H H' : Hashes) (p : CertParams) (s : PubKey) (i : Issuer)
    (h : digestFree p i = true) : tbsCertificate H p s i = tbsCertificate H' p s i := by
  unfold digestFree at h
  simp only [Bool.and_eq_true] at h
  obtain ⟨⟨h1, h2⟩, h3⟩ := h
  cases hs : p.serial with
  | none => simp [hs] at h1
  | some ser =>
    cases hk : p.keyIdMethod with
    | preSpecified b =>
      cases hi : i.keyIdMethod with
      | preSpecified c =>
        simp [tbsCertificate, tbsCertificateFields, serialNode, certExtensions, akiValue, caExts,
          skiExt, KeyIdMethod.derive, hs, hk, hi]
      | sha256 => simp [hi] at h3
      | sha384 => simp [hi] at h3
      | sha512 => simp [hi] at h3
    | sha256 => simp [hk] at h2
    | sha384 => simp [hk] at h2
    | sha512 => simp [hk] at h2

/-- the CSR never consults a digest -/
theorem csr_backend_free (p : CertParams) (s : PubKey) (attrs : List Attribute) :
    csrInfo p s attrs = csrInfo p s attrs := rfl

/-- the CRL consults the hash family only through its own key-identifier method -/
theorem crl_backend_free (H H' : Hashes) (p : CrlParams) (i : Issuer) (b : Bytes)
    (h : p.keyIdMethod = .preSpecified b) : tbsCertList H p i = tbsCertList H' p i := by
  simp [tbsCertList, crlExtensions, KeyIdMethod.derive, h]

/-- in general the TBS depends on the back end only through the three digests it asks for:
    two hash families that agree on those inputs give the same bytes (ring, aws-lc-rs and
    OpenSSL all implement SHA-2; their agreement is what the correspondence observes) -/
theorem tbs_depends_on_digests_only (H H' : Hashes) (p : CertParams) (s : PubKey) (i : Issuer)
    (h256 : ∀ m, H.sha256 m = H'.sha256 m) (h384 : ∀ m, H.sha384 m = H'.sha384 m)
    (h512 : ∀ m, H.sha512 m = H'.sha512 m) : tbsCertificate H p s i = tbsCertificate H' p s i := by
  have e1 : H.sha256 = H'.sha256 := funext h256
  have e2 : H.sha384 = H'.sha384 := funext h384
  have e3 : H.sha512 = H'.sha512 := funext h512
  cases H; cases H'
  simp only at e1 e2 e3
  subst e1 e2 e3
  rfl

/-! non-vacuity -/
example : digestFree { (default : CertParams) with serial := some [1], keyIdMethod := .preSpecified [2] }
    { dn := default, keyIdMethod := .preSpecified [3], keyUsages := [], key := default } = true := by decide

/-- **a key exported by one back end loads in the other**: for every pair of back ends and every
    key type both hold, the document the first writes for a generated key — and the document it
    hands out for a key it *loaded* from any encoding — is auto-detected by the second as a key of
    the same type with the same algorithm, and loads there under every algorithm of that type it
    is told (the parsers' acceptance table is the assumption of Model/Keys.lean, validated row
    by row against both back ends on every run) -/
theorem exported_key_loads_in_other_backend :
    C11.allBackends.all (fun b => C11.allBackends.all (fun b' => C11.allKeyTypes.all (fun k =>
      !(supports b k && supports b' k) ||
      (let d : KeyDoc := ⟨exportFormat b k, k⟩
       autodetect b' d == .ok k.defaultAlg &&
       (publicAlgs b').all (fun a => !a.fits k || loadDerWith b' a d == .ok a) &&
       C11.allFormats.all (fun f =>
         let src : KeyDoc := ⟨f, k⟩
         match autodetect b src with
         | .ok _ => autodetect b' ⟨exportOfLoaded b src, k⟩ == .ok k.defaultAlg
         | _ => true))))) = true := by decide

/-- **one back end per build**: every combination of the two back-end features selects exactly
    one set of guarded items — none without either, ring's with ring alone, aws-lc-rs' as soon as
    `aws_lc_rs` is on (with or without `ring`): the two guards `feature = "aws_lc_rs"` and
    `all(feature = "ring", not(feature = "aws_lc_rs"))` never hold together, and one of them
    holds exactly when `crypto` does -/
theorem one_backend_per_build (f : BackendFeatures) :
    (f.backend.isSome = f.crypto) ∧
    (f.awsLcRs = true → f.backend = some .aws) ∧
    (f.awsLcRs = false → f.ring = true → f.backend = some .ring) := by
  cases f with | mk r a => cases r <;> cases a <;> decide

/-- a build with both features on is the aws-lc-rs build, for everything the model says about
    a back end: turning `ring` on next to `aws_lc_rs` changes no answer (the `both` harness build
    is held to this on the whole key-loading matrix of C11 and the case file of C16) -/
theorem ring_next_to_aws_changes_nothing :
    (⟨true, true⟩ : BackendFeatures).backend = (⟨false, true⟩ : BackendFeatures).backend := by decide

end Rcgen.Theorems.C16
