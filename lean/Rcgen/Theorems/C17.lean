import Rcgen.Proofs.ImportDecode
import Rcgen.Proofs.ChainImport
import Rcgen.Proofs.ImportSucceeds
import Rcgen.Theorems.C02
/-
  C17 — importing a CA certificate recovers the fields it claims to recover.
  Model: `Model/Import.lean` (`importCa`: rcgen's glue after the x509-parser decode).
  `import_of_generated` is the statement end to end on the model: the glue applied to what a
  generated certificate decodes to (C02's record) returns the generating fields.  The field
  lemmas it is assembled from follow (proofs in Proofs/ImportFields.lean, Proofs/ImportDecode.lean).
  That x509-parser yields the content the Spec decoder yields is observed by the check on every
  imported certificate, not proved.
-/
namespace Rcgen.Theorems.C17
open Rcgen Rcgen.Model Rcgen.Spec Rcgen.Proofs

abbrev subtreeSupported := ImportFields.subtreeSupported

/-- **import ∘ generate = identity on the supported fields.**  For every parameter set: whatever
    the import glue returns for the content a generated certificate decodes to has the
    generating subject name, CA flag and path length (0..=255), key usages as a set, standard
    extended key usages as a set, subject alternative names, supported name-constraint subtrees
    (e-mail, DNS, IPv4 and IPv6 subnets), serial number as an integer and both validity
    instants. -/
theorem import_of_generated (crypto : Bool) (i : CertInputs)
    (hc : ∀ e ∈ i.p.customExts, e.oid ∉ X509.knownOids) (p' : CertParams)
    (h : importCa crypto (CertDecode.modelTbs i) = .ok p')
    (hpl : ∀ n, i.p.isCa = .ca (some n) → n ≤ 255)
    (hip : ∀ o, SanType.ip o ∈ i.p.sans → o.length = 4 ∨ o.length = 16)
    (hother : ∀ oid v, SanType.otherName oid v ∈ i.p.sans → utf8Valid v = true ∧ ∀ x ∈ oid, x < 2 ^ 64)
    (hnc : ∀ nc, i.p.nameConstraints = some nc →
      nc.permitted.all subtreeSupported = true ∧ nc.excluded.all subtreeSupported = true) :
    reqName p'.dn.iter = reqName i.p.dn.iter ∧
    p'.isCa = i.p.isCa ∧
    p'.keyUsages = KeyUsage.all.filter (fun k => i.p.keyUsages.contains k) ∧
    (∀ e, e ∈ p'.ekus ↔ (e ∈ stdEkus ∧ ∃ x ∈ i.p.ekus, rfcEkuOid x = e.oid)) ∧
    p'.sans = i.p.sans ∧
    p'.nameConstraints = (match i.p.nameConstraints with
      | some nc => if nc.isEmpty then none else some nc
      | none => none) ∧
    (∀ s, p'.serial = some s → ofBe s = reqSerial i) ∧
    p'.notBefore.epochSeconds = i.p.notBefore.epochSeconds ∧
    p'.notAfter.epochSeconds = i.p.notAfter.epochSeconds :=
  ImportDecode.import_of_generated crypto i hc p' h hpl hip hother hnc

/-- re-issuing through an import keeps the chain: a certificate issued from the *imported*
    parameters of a CA names that CA as its issuer — its issuer field decodes to exactly the
    subject the CA certificate decodes to (C03's name clause, through `from_ca_cert_der`) -/
theorem issued_from_imported_names_issuer (crypto : Bool) (ca : CertInputs)
    (hc : ∀ e ∈ ca.p.customExts, e.oid ∉ X509.knownOids) (p' : CertParams)
    (h : importCa crypto (CertDecode.modelTbs ca) = .ok p')
    (hpl : ∀ n, ca.p.isCa = .ca (some n) → n ≤ 255)
    (hip : ∀ o, SanType.ip o ∈ ca.p.sans → o.length = 4 ∨ o.length = 16)
    (hother : ∀ oid v, SanType.otherName oid v ∈ ca.p.sans → utf8Valid v = true ∧ ∀ x ∈ oid, x < 2 ^ 64)
    (hnc : ∀ nc, ca.p.nameConstraints = some nc →
      nc.permitted.all subtreeSupported = true ∧ nc.excluded.all subtreeSupported = true)
    (leaf : CertParams) (leafKey caKey : PubKey) (H : Hashes) :
    (CertDecode.modelTbs ⟨H, leaf, leafKey, Validate.issuerOf ⟨p', caKey⟩⟩).issuer =
      (CertDecode.modelTbs ca).subject :=
  ChainImport.issued_from_imported_names_issuer crypto ca hc p' h hpl hip hother hnc leaf leafKey caKey H

/-- `get_extension_unique` never errs on a generated certificate: each of rcgen's own
    extensions occurs at most once (C05), so the lookup returns it, or nothing -/
theorem unique_extension_lookup (i : CertInputs)
    (hc : ∀ e ∈ i.p.customExts, e.oid ∉ X509.knownOids) (o : List Nat) (ho : o ∈ X509.knownOids) :
    uniqueExt (CertDecode.modelTbs i) o = .ok ((CertDecode.modelExts i).find? (Validate.hasOid o)) :=
  ImportDecode.uniqueExt_model i hc o ho

/-- subject name: see `C03.import_preserves_or_fails` (any name without a repeated type) -/
theorem subject_name_recovered (n : Name) (dn : DistinguishedName) (h : importName n = .ok dn) :
    reqName dn.iter = n := ImportFields.subject_name_recovered n dn h

/-- CA flag and path length -/
theorem is_ca_recovered (oid : List Nat) (crit : Bool) :
    (∀ n, n ≤ 255 → importIsCa (some ⟨oid, crit, .basicConstraints true (some n)⟩) = .ok (.ca (some n))) ∧
    importIsCa (some ⟨oid, crit, .basicConstraints true none⟩) = .ok (.ca none) ∧
    importIsCa (some ⟨oid, crit, .basicConstraints false none⟩) = .ok .explicitNoCa ∧
    importIsCa none = .ok .noCa := ImportFields.is_ca_recovered oid crit

theorem index_lt (k : KeyUsage) : k.index < 9 := ImportFields.index_lt k

theorem index_inj (a b : KeyUsage) (h : a.index = b.index) : a = b := ImportFields.index_inj a b h

/-- **key usages, as a set**: the named bits a decoder reads for a usage list import back as
    exactly the usages that occur in it (the bit-reversal detour of the real code is the
    identity on named-bit indices) -/
theorem key_usage_reversal (kus : List KeyUsage) :
    importKeyUsages (reqKeyUsageBits kus) = KeyUsage.all.filter (fun k => kus.contains k) :=
  ImportFields.key_usage_reversal kus

/-- serial number, as an integer -/
theorem serial_recovered (n : Nat) : ofBe (serialBytesOfNat n) = n := ImportFields.serial_recovered n

/-- validity: the imported date-time denotes the decoded instant -/
theorem validity_recovered (t : Int) : (dateTimeOfEpoch t).epochSeconds = t :=
  ImportFields.validity_recovered t

/-- subject alternative names (values of the validated types: IP octets of length 4 or 16,
    otherName text valid UTF-8) -/
theorem san_recovered (s : SanType)
    (hip : ∀ o, s = .ip o → o.length = 4 ∨ o.length = 16)
    (hother : ∀ oid v, s = .otherName oid v → utf8Valid v = true ∧ ∀ x ∈ oid, x < 2 ^ 64) :
    importSan (reqSan s) = .ok s := ImportFields.san_recovered s hip hother

/-- supported name-constraint subtrees, any number, permitted or excluded alike: recovered in order -/
theorem subtrees_recovered (ts : List GeneralSubtree) (h : ts.all subtreeSupported = true) :
    importSubtrees (ts.map (reqSubtree enumOf)) = .ok ts := ImportFields.subtrees_recovered ts h

/-- the standard extended key usages are recovered as a set -/
theorem ekus_recovered (ekus : List Eku) (e : Eku) :
    e ∈ importEkus (ekus.map rfcEkuOid) ↔ (e ∈ stdEkus ∧ ∃ x ∈ ekus, rfcEkuOid x = e.oid) :=
  ImportFields.ekus_recovered ekus e

/-- the subject key identifier is captured as a fixed key identifier -/
theorem ski_captured (crypto : Bool) (c : TbsCert) (b : Bytes) (rest : List Bytes)
    (h : c.exts.filterMap skiOf = b :: rest) : importKid crypto c = .ok (.preSpecified b) :=
  ImportFields.ski_captured crypto c b rest h

/-- re-issuing: the key-usage set written from the imported list is the one imported -/
theorem reissue_key_usages (kus : List KeyUsage) :
    reqKeyUsageBits (importKeyUsages (reqKeyUsageBits kus)) = reqKeyUsageBits kus :=
  ImportFields.reissue_key_usages kus

abbrev valueWellFormed := ImportSucceeds.valueWellFormed

/-- **importing a generated certificate succeeds.**  The glue of `from_ca_cert_der`, applied to
    what an RFC 5280 reader finds in a certificate rcgen generated, returns parameters (which
    `import_of_generated` then characterises): for every subject whose values carry the
    invariants of their string types (C13) and whose attribute identifiers are pairwise different
    with components a `u64` holds, every CA flag with a path length a `u8` holds, every key
    usage / extended key usage list, alternative names of the validated types, supported
    name-constraint subtrees, any serial, validity and key-identifier method (without a crypto
    back end the certificate has to carry a subject key identifier, as the code requires) -/
theorem import_of_generated_succeeds (crypto : Bool) (i : CertInputs)
    (hc : ∀ e ∈ i.p.customExts, e.oid ∉ X509.knownOids)
    (hwf : ∀ e ∈ i.p.dn.iter, valueWellFormed e.2 = true)
    (hu : ∀ e ∈ i.p.dn.iter, ∀ x ∈ rfcAttrOid e.1, x < 2 ^ 64)
    (hnd : (i.p.dn.iter.map (fun e => DnType.fromOid (rfcAttrOid e.1))).Nodup)
    (hpl : ∀ n, i.p.isCa = .ca (some n) → n ≤ 255)
    (hip : ∀ o, SanType.ip o ∈ i.p.sans → o.length = 4 ∨ o.length = 16)
    (hother : ∀ oid v, SanType.otherName oid v ∈ i.p.sans → utf8Valid v = true ∧ ∀ x ∈ oid, x < 2 ^ 64)
    (hnc : ∀ nc, i.p.nameConstraints = some nc →
      nc.permitted.all subtreeSupported = true ∧ nc.excluded.all subtreeSupported = true)
    (hkid : crypto = true ∨ ∃ b rest, (CertDecode.modelTbs i).exts.filterMap skiOf = b :: rest) :
    ∃ p', importCa crypto (CertDecode.modelTbs i) = .ok p' :=
  ImportSucceeds.import_succeeds crypto i hc hwf hu hnd hpl hip hother hnc hkid

/-! non-vacuity of `import_of_generated_succeeds`: a CA with a two-attribute name, a path
    length, alternative names and a DNS name constraint meets every hypothesis -/
def exCa : CertInputs :=
  { H := ⟨fun _ => List.replicate 32 7, fun _ => List.replicate 48 7, fun _ => List.replicate 64 7⟩,
    p := { (default : CertParams) with
           dn := (DistinguishedName.new.push .org (.printable [0x4f])).push .commonName (.utf8 [0xc3, 0xa9]),
           isCa := .ca (some 3), sans := [.dns [0x61], .ip [10, 0, 0, 1], .otherName [1, 2, 3] [0x78]],
           nameConstraints := some { permitted := [.dns [0x62]], excluded := [.ip (.v4 [10, 0, 0, 0] [255, 0, 0, 0])] } },
    subject := ⟨.ed25519, List.replicate 32 7⟩,
    issuer := { dn := DistinguishedName.new, keyIdMethod := .sha256, keyUsages := [], key := ⟨.ed25519, List.replicate 32 7⟩ } }

example : (∀ e ∈ exCa.p.dn.iter, valueWellFormed e.2 = true) ∧
    (∀ e ∈ exCa.p.dn.iter, ∀ x ∈ rfcAttrOid e.1, x < 2 ^ 64) ∧
    (exCa.p.dn.iter.map (fun e => DnType.fromOid (rfcAttrOid e.1))).Nodup ∧
    (∀ nc, exCa.p.nameConstraints = some nc →
      nc.permitted.all subtreeSupported = true ∧ nc.excluded.all subtreeSupported = true) := by
  refine ⟨by decide, by decide, by decide, ?_⟩
  intro nc h
  injection h with h
  subst h
  decide

/-! non-vacuity: the C02 example certificate imports (the glue returns parameters) -/
example : (match importCa true (CertDecode.modelTbs C02.exInputs) with
    | .ok _ => true
    | .error _ => false) = true := by decide +kernel

end Rcgen.Theorems.C17
