import Rcgen.Proofs.CertDecode
import Rcgen.Proofs.Ctor
/-
  C02 — a certificate says exactly what its parameters say.
  Spec: `Spec.c02Clauses` (Spec/Props.lean): the RFC 5280 decoding of the to-be-signed bytes
  equals `Spec.reqExts` / `reqName` / `reqSerial` … computed from the parameters alone.
  This file: finite tables closed over their whole domain, the extension-block rule, and the
  field layout, and `cert_decodes_to_request`: the full typed decode, assembled in
  Proofs/{Leaf,WF,X509,KeyUsage,CertDecode}.lean from the generic DER round trip and one
  inverse lemma per writer.
-/
namespace Rcgen.Theorems.C02
open Rcgen Rcgen.Model Rcgen.Spec

/-- the key-usage set selected by a 9-bit mask, in named-bit order -/
abbrev kuSubset := Proofs.KeyUsage.kuSubset

/-- decode the KeyUsage BIT STRING the model writes for a set -/
abbrev decodedKu := Proofs.KeyUsage.decodedKu

/-- **all 512 key-usage subsets**: the named bits an RFC 5280 decoder reads are exactly the
    requested ones, and the named-bit list is minimal (no trailing zero bit) -/
theorem key_usage_bits_all_subsets :
    (List.range 512).all (fun m =>
      m == 0 ||
      (decodedKu (kuSubset m) == some (reqKeyUsageBits (kuSubset m)) &&
       (match keyUsageValue (kuSubset m) with
        | .prim 0 3 c => namedBitsMinimal c
        | _ => false))) = true := Proofs.KeyUsage.table

/-- the bit pattern depends only on *which* usages occur: duplicates and order are immaterial -/
theorem keyUsageBits_testBit (kus : List KeyUsage) (j : Nat) :
    (keyUsageBits kus).testBit j = kus.any (fun k => k.index + j == 15) :=
  Proofs.KeyUsage.keyUsageBits_testBit kus j

theorem keyUsageBits_congr (a b : List KeyUsage) (h : ∀ k, k ∈ a ↔ k ∈ b) :
    keyUsageBits a = keyUsageBits b := Proofs.KeyUsage.keyUsageBits_congr a b h

/-- so every list of usages (any order, any repetition) is written as its subset is -/
theorem keyUsageValue_congr (a b : List KeyUsage) (h : ∀ k, k ∈ a ↔ k ∈ b) :
    keyUsageValue a = keyUsageValue b := Proofs.KeyUsage.keyUsageValue_congr a b h

/-- **every list of usages** — any order, any repetition — is written as a BIT STRING from which
    an RFC 5280 reader obtains exactly the requested named bits, with no trailing zero bit
    (the 512-row table lifted to arbitrary lists) -/
theorem key_usage_decodes (kus : List KeyUsage) (hne : kus ≠ []) :
    decodedKu kus = some (reqKeyUsageBits kus) ∧
    (match keyUsageValue kus with
     | .prim 0 3 c => namedBitsMinimal c
     | _ => false) = true := Proofs.KeyUsage.ku_decodes kus hne

/-- first `min n w` bits set, as `w/8` octets -/
def leadingOnes (w n : Nat) : Bytes :=
  (List.range (w / 8)).map (fun i =>
    let k := min n w - min (min n w) (8 * i)     -- bits of the mask left from byte i on
    UInt8.ofNat (if k ≥ 8 then 255 else 256 - 2 ^ (8 - k)))

/-- **all prefix lengths 0..=255, IPv4 and IPv6**: the mask built from a prefix length is the
    first `min(prefix, width)` bits set, whatever the address -/
theorem cidr_mask_all_prefixes :
    (List.range 256).all (fun n =>
      prefixMask 32 n == leadingOnes 32 n && prefixMask 128 n == leadingOnes 128 n) = true := by
  decide +kernel

/-- the CIDR subnet keeps the address bytes as given and pairs them with that mask -/
theorem cidr_from_prefix (a : Bytes) (n : Nat) :
    (CidrSubnet.fromV4Prefix a n).bytes = a ++ prefixMask 32 n ∧
    (CidrSubnet.fromV6Prefix a n).bytes = a ++ prefixMask 128 n := ⟨rfl, rfl⟩

/-- the `[3]` extensions field is present exactly when some extension is requested: any of
    AKI, SAN, key usage, EKU, non-empty name constraints, CRL distribution points, a CA flag
    other than NoCa, or a custom extension -/
theorem extensions_block_iff (p : CertParams) :
    shouldWriteExts p = true ↔
      (p.useAki = true ∨ p.sans ≠ [] ∨ p.keyUsages ≠ [] ∨ p.ekus ≠ [] ∨
       (∃ nc, p.nameConstraints = some nc ∧ nc.isEmpty = false) ∨ p.crlDps ≠ [] ∨
       p.isCa ≠ .noCa ∨ p.customExts ≠ []) := by
  unfold shouldWriteExts
  have hnc : ncRequested p.nameConstraints = true ↔
      (∃ nc, p.nameConstraints = some nc ∧ nc.isEmpty = false) := by
    cases p.nameConstraints with
    | none => simp [ncRequested]
    | some nc => simp [ncRequested]
  simp only [Bool.or_eq_true, Bool.not_eq_true', List.isEmpty_eq_false_iff, bne_iff_ne, ne_eq, hnc]
  constructor
  · intro h
    rcases h with ((((((h | h) | h) | h) | h) | h) | h) | h
    · exact Or.inl h
    · exact Or.inr (Or.inl h)
    · exact Or.inr (Or.inr (Or.inl h))
    · exact Or.inr (Or.inr (Or.inr (Or.inl h)))
    · exact Or.inr (Or.inr (Or.inr (Or.inr (Or.inl h))))
    · exact Or.inr (Or.inr (Or.inr (Or.inr (Or.inr (Or.inl h)))))
    · exact Or.inr (Or.inr (Or.inr (Or.inr (Or.inr (Or.inr (Or.inl h))))))
    · exact Or.inr (Or.inr (Or.inr (Or.inr (Or.inr (Or.inr (Or.inr h))))))
  · intro h
    rcases h with h | h | h | h | h | h | h | h
    · exact Or.inl (Or.inl (Or.inl (Or.inl (Or.inl (Or.inl (Or.inl h))))))
    · exact Or.inl (Or.inl (Or.inl (Or.inl (Or.inl (Or.inl (Or.inr h))))))
    · exact Or.inl (Or.inl (Or.inl (Or.inl (Or.inl (Or.inr h)))))
    · exact Or.inl (Or.inl (Or.inl (Or.inl (Or.inr h))))
    · exact Or.inl (Or.inl (Or.inl (Or.inr h)))
    · exact Or.inl (Or.inl (Or.inr h))
    · exact Or.inl (Or.inr h)
    · exact Or.inr h

/-- and when it is present it holds exactly the extensions `certExtensions` lists, none
    written twice: each writer runs once, in a fixed order -/
theorem extensions_field (H : Hashes) (p : CertParams) (s : PubKey) (i : Issuer) :
    tbsCertificateFields H p s i =
      [ .explicit 0 (.intOfNat 2), serialNode H p s, algIdent i.key.alg,
        writeDistinguishedName i.dn, .seq [writeTime p.notBefore, writeTime p.notAfter],
        writeDistinguishedName p.dn, spkiNode s ] ++
      (if shouldWriteExts p then [.explicit 3 (.seq (certExtensions H p s i))] else []) := rfl

/-- when the block is absent nothing was requested: no extension is silently dropped -/
theorem nothing_dropped (H : Hashes) (p : CertParams) (s : PubKey) (i : Issuer)
    (h : shouldWriteExts p = false) : certExtensions H p s i = [] := by
  unfold shouldWriteExts at h
  simp only [Bool.or_eq_false_iff, Bool.not_eq_false', bne_eq_false_iff_eq] at h
  obtain ⟨⟨⟨⟨⟨⟨⟨h1, h2⟩, h3⟩, h4⟩, h5⟩, h6⟩, h7⟩, h8⟩ := h
  have e2 : p.sans = [] := by simpa using h2
  have e3 : p.keyUsages = [] := by simpa using h3
  have e4 : p.ekus = [] := by simpa using h4
  have e6 : p.crlDps = [] := by simpa using h6
  have e8 : p.customExts = [] := by simpa using h8
  unfold certExtensions sanExt keyUsageExt ekuExt crlDpsExt caExts nameConstraintsExt
  cases hnc : p.nameConstraints with
  | none => simp [h1, e2, e3, e4, e6, h7, e8]
  | some nc =>
    rw [hnc] at h5
    have : nc.isEmpty = true := by simpa [ncRequested] using h5
    simp [h1, e2, e3, e4, e6, h7, e8, this]

/-- the subject public key is written as the RFC SubjectPublicKeyInfo of (algorithm, key bits) -/
theorem spki_is_rfc (k : PubKey) : spkiDer k = rfcSpki k := Proofs.CertDecode.spki_is_rfc k

/-- the extension identifiers whose values an RFC 5280 reader interprets; a caller-supplied
    extension under one of them would have to carry a well-formed value of that extension,
    which is the caller's business, so the theorem below excludes them -/
abbrev interpretedOids := Proofs.X509.knownOids

/-- **a certificate says exactly what its parameters say.**  For every parameter set, subject
    key, issuer and hash family: if validation passes and the values of the validated string
    types carry their invariant (that is, generation returns a certificate), then strict DER
    decoding of the to-be-signed bytes followed by the RFC 5280 readers yields exactly the
    requested content — serial number, issuer and subject names as the enumerations of the
    names, both validity instants, the RFC SubjectPublicKeyInfo, and *exactly* the requested
    extensions (nothing missing, nothing added, nothing twice), each with the requested
    content; the subject key identifier is present in a CA certificate and is the configured
    digest of the SubjectPublicKeyInfo.  No bound on list or text lengths; the only size
    hypothesis is that the encoding is shorter than 256^126 octets. -/
theorem cert_decodes_to_request (i : CertInputs)
    (hinv : certInvalid i.p i.issuer = none)
    (hnp : certPanics i.p i.issuer = false)
    (hc : ∀ e ∈ i.p.customExts, e.oid ∉ interpretedOids)
    (hsize : (encode (tbsCertificate i.H i.p i.subject i.issuer)).length < 256 ^ 126) :
    c02Clauses i (encode (tbsCertificate i.H i.p i.subject i.issuer)) = [] :=
  Proofs.CertDecode.c02_clauses_hold i hinv hnp hc hsize

/-- the typed record itself -/
theorem cert_decodes_to_record (i : CertInputs)
    (hinv : certInvalid i.p i.issuer = none)
    (hnp : certPanics i.p i.issuer = false)
    (hc : ∀ e ∈ i.p.customExts, e.oid ∉ interpretedOids)
    (hsize : (encode (tbsCertificate i.H i.p i.subject i.issuer)).length < 256 ^ 126) :
    decodeTbsCert (encode (tbsCertificate i.H i.p i.subject i.issuer)) =
      some (Proofs.CertDecode.modelTbs i) :=
  Proofs.CertDecode.tbs_decodes i hinv hnp hc hsize

/-- both validity fields decode to the same instant in the RFC 5280 form (C09 on the whole
    certificate) -/
theorem cert_time_fields_decode (i : CertInputs)
    (hinv : certInvalid i.p i.issuer = none)
    (hnp : certPanics i.p i.issuer = false)
    (hc : ∀ e ∈ i.p.customExts, e.oid ∉ interpretedOids)
    (hsize : (encode (tbsCertificate i.H i.p i.subject i.issuer)).length < 256 ^ 126) :
    c09CertClauses i (encode (tbsCertificate i.H i.p i.subject i.issuer)) = [] :=
  Proofs.CertDecode.c09_cert_clauses_hold i hinv hnp hc hsize

/-- stated on the public entry point: whatever certificate `issueCert` returns, its embedded
    to-be-signed bytes decode to the request -/
theorem issued_cert_decodes_to_request (cfg : Config) (i : CertInputs) (sign : Signer) (t : Asn1)
    (h : issueCert cfg i.H i.p i.subject i.issuer sign = .ok t)
    (hc : ∀ e ∈ i.p.customExts, e.oid ∉ interpretedOids)
    (hsize : (encode (tbsCertificate i.H i.p i.subject i.issuer)).length < 256 ^ 126) :
    ∃ sig, t = .seq [tbsCertificate i.H i.p i.subject i.issuer, algIdent i.issuer.key.alg,
        .bitStringOctets sig] ∧
      c02Clauses i (encode (tbsCertificate i.H i.p i.subject i.issuer)) = [] := by
  unfold issueCert at h
  cases hinv : certInvalid i.p i.issuer with
  | some e => simp [hinv] at h
  | none =>
    simp only [hinv] at h
    split at h
    · cases h
    · split at h
      · cases h
      · rename_i hnp
        have hnp' : certPanics i.p i.issuer = false := by simpa using hnp
        unfold signDer at h
        cases hs : sign (encode (tbsCertificate i.H i.p i.subject i.issuer)) with
        | error e => simp [hs] at h
        | ok sig =>
          simp only [hs] at h
          exact ⟨sig, by cases h; rfl, cert_decodes_to_request i hinv hnp' hc hsize⟩

/-- **the returned `Certificate` reports what its DER encodes**: its `params()` are the
    parameters it was generated from, its DER is the signed to-be-signed certificate of those
    parameters, and `key_identifier()` is the subjectKeyIdentifier an RFC 5280 reader finds in
    that DER wherever one is present (every CA and `ExplicitNoCa` certificate) -/
theorem certificate_reports_what_it_encodes (cfg : Config) (i : CertInputs) (sign : Signer)
    (c : Certificate)
    (h : issueCertificate cfg i.H i.p i.subject i.issuer sign = .ok c)
    (hc : ∀ e ∈ i.p.customExts, e.oid ∉ interpretedOids)
    (hsize : (encode (tbsCertificate i.H i.p i.subject i.issuer)).length < 256 ^ 126) :
    c.params = i.p ∧
    (∃ sig, c.der = encode (.seq [tbsCertificate i.H i.p i.subject i.issuer,
        algIdent i.issuer.key.alg, .bitStringOctets sig])) ∧
    c02ObjectClauses (encode (tbsCertificate i.H i.p i.subject i.issuer)) (c.keyIdentifier i.H) = [] := by
  unfold issueCertificate at h
  cases ht : issueCert cfg i.H i.p i.subject i.issuer sign with
  | err e => simp [ht] at h
  | panic s => simp [ht] at h
  | ok t =>
    simp only [ht] at h
    injection h with h
    subst h
    obtain ⟨sig, rfl, _⟩ := issued_cert_decodes_to_request cfg i sign t ht hc hsize
    refine ⟨rfl, ⟨sig, rfl⟩, ?_⟩
    have hinv : certInvalid i.p i.issuer = none := by
      unfold issueCert at ht
      cases hinv : certInvalid i.p i.issuer with
      | some e => simp [hinv] at ht
      | none => rfl
    have hnp : certPanics i.p i.issuer = false := by
      unfold issueCert at ht
      simp only [hinv] at ht
      split at ht
      · cases ht
      · split at ht
        · cases ht
        · rename_i hnp; simpa using hnp
    unfold c02ObjectClauses
    rw [cert_decodes_to_record i hinv hnp hc hsize]
    simp only [Certificate.keyIdentifier, Proofs.CertDecode.modelTbs, clause]
    have : ((Proofs.CertDecode.modelExts i).filter (fun e => e.oid == oidSki)).all
        (fun e => e.value == .ski (i.p.keyIdMethod.derive i.H (spkiDer i.subject))) = true := by
      simp only [List.all_eq_true, List.mem_filter, and_imp]
      intro e he hoid
      unfold Proofs.CertDecode.modelExts at he
      simp only [List.mem_append, List.mem_map] at he
      rcases he with ((((((( he | he) | he) | he) | he) | he) | he) | he)
      · split at he <;> simp at he; subst he; simp [oidAki, oidSki] at hoid
      · split at he <;> simp at he; subst he; simp [oidSan, oidSki] at hoid
      · split at he <;> simp at he; subst he; simp [oidKeyUsage, oidSki] at hoid
      · split at he <;> simp at he; subst he; simp [oidEku, oidSki] at hoid
      · split at he
        · simp at he
        · split at he <;> simp at he; subst he; simp [oidNameConstraints, oidSki] at hoid
      · split at he <;> simp at he; subst he; simp [oidCrlDps, oidSki] at hoid
      · split at he
        · simp only [List.mem_cons, List.not_mem_nil, or_false] at he
          rcases he with rfl | rfl
          · simp
          · simp [oidBasicConstraints, oidSki] at hoid
        · simp only [List.mem_cons, List.not_mem_nil, or_false] at he
          rcases he with rfl | rfl
          · simp
          · simp [oidBasicConstraints, oidSki] at hoid
        · simp at he
      · obtain ⟨x, hx, rfl⟩ := he
        exfalso
        have hk := hc x hx
        simp only [beq_iff_eq] at hoid
        apply hk
        rw [hoid]
        decide
    simp [this]

/-! non-vacuity: the case the hand-maintained condition used to miss -/
example : shouldWriteExts { (default : CertParams) with keyUsages := [.digitalSignature] } = true := by
  decide

/-! non-vacuity of `cert_decodes_to_request`: a CA certificate with every kind of extension,
    dates in an offset, a repeated key usage, a directory-name constraint — meets all four
    hypotheses -/
def exDt (y : Int) : DateTime :=
  { year := y, month := 1, day := 1, hour := 0, minute := 0, second := 0, nanos := 0, offset := 3600 }
def exDn : DistinguishedName :=
  (DistinguishedName.new.push .commonName (.utf8 [0x61])).push .org (.printable [0x62])
def exInputs : CertInputs :=
  { H := ⟨fun _ => List.replicate 32 7, fun _ => List.replicate 48 7, fun _ => List.replicate 64 7⟩,
    p := { notBefore := exDt 2024, notAfter := exDt 2051, serial := none,
           sans := [.dns [0x61], .ip [10, 0, 0, 1]], dn := exDn, isCa := .ca (some 0),
           keyUsages := [.keyCertSign, .digitalSignature, .keyCertSign], ekus := [.serverAuth],
           nameConstraints := some { permitted := [.dns [0x61]], excluded := [.directoryName exDn] },
           crlDps := [⟨[[0x68]]⟩], customExts := [⟨[1, 2, 3, 4], true, [5, 0]⟩], useAki := true,
           keyIdMethod := .sha256 },
    subject := ⟨.ed25519, List.replicate 32 1⟩,
    issuer := { dn := exDn, keyIdMethod := .sha384, keyUsages := [], key := ⟨.ecdsaP256, [4, 1, 2]⟩ } }

example : certInvalid exInputs.p exInputs.issuer = none := by decide +kernel
example : certPanics exInputs.p exInputs.issuer = false := by decide +kernel
example : ∀ e ∈ exInputs.p.customExts, e.oid ∉ interpretedOids := by decide
example : (encode (tbsCertificate exInputs.H exInputs.p exInputs.subject exInputs.issuer)).length
    < 256 ^ 126 := by decide +kernel

/-! ### the constructors that turn text and numbers into parameter values (Model/Ctor.lean)

    The property names "the address/mask of CIDR subnets built from a prefix length" and the
    serial number; callers reach both through `CidrSubnet::from_str` / `from_addr_prefix`,
    `SerialNumber::from(u64)`, `CertificateParams::new`, `new_acme_identifier`.  These theorems
    say what those constructors hand to the writers, for every text and number. -/

/-- the mask of every prefix length a `u8` can hold is the first `min(n, width)` bits
    (the 256-row table lifted to a statement about `n`) -/
theorem prefixMask_leadingOnes (n : Nat) (h : n < 256) :
    prefixMask 32 n = leadingOnes 32 n ∧ prefixMask 128 n = leadingOnes 128 n := by
  have t := cidr_mask_all_prefixes
  rw [List.all_eq_true] at t
  have := t n (List.mem_range.2 h)
  simpa using this

/-- **`CidrSubnet::from_str`, every text**: whatever it accepts has the form
    `<address>/<prefix>[/…]`; the subnet holds the octets `IpAddr::from_str` reads from the first
    piece and, as mask, the first `min(n, width)` bits for the decimal number `n ≤ 255` the second
    piece denotes -/
theorem cidr_from_str_subnet (s : Bytes) (c : CidrSubnet) (h : cidrFromStr s = some c) :
    ∃ a p rest addr n, splitOnByte 47 s = a :: p :: rest ∧ parseIp a = some addr ∧
      parseU8 p = some n ∧ n = decVal (u8Digits p) ∧ n ≤ 255 ∧
      ((addr.length = 4 ∧ c = .v4 addr (leadingOnes 32 n)) ∨
       (addr.length = 16 ∧ c = .v6 addr (leadingOnes 128 n))) := by
  unfold cidrFromStr at h
  split at h
  · rename_i a p rest hs
    cases ha : parseIp a with
    | none => simp [ha] at h
    | some addr =>
      cases hp : parseU8 p with
      | none => simp [ha, hp] at h
      | some n =>
        simp only [ha, hp, Option.some.injEq] at h
        obtain ⟨hle, hval, _, _⟩ := parseU8_spec p n hp
        obtain ⟨m4, m6⟩ := prefixMask_leadingOnes n (by omega)
        refine ⟨a, p, rest, addr, n, hs, ha, hp, hval, hle, ?_⟩
        subst h
        rcases parseIp_len a addr ha with h4 | h16
        · left; exact ⟨h4, by simp [CidrSubnet.fromAddrPrefix, h4, CidrSubnet.fromV4Prefix, m4]⟩
        · right
          refine ⟨h16, ?_⟩
          have : ¬ addr.length = 4 := by omega
          simp [CidrSubnet.fromAddrPrefix, this, CidrSubnet.fromV6Prefix, m6]
  · cases h

/-- … and it accepts every such text: an address `IpAddr::from_str` reads, a `/`, a prefix length
    `u8::from_str` reads -/
theorem cidr_from_str_accepts (a p addr : Bytes) (n : Nat) (ha : parseIp a = some addr)
    (hp : parseU8 p = some n) (hsa : (47 : UInt8) ∉ a) (hsp : (47 : UInt8) ∉ p) :
    cidrFromStr (a ++ 47 :: p) = some (.fromAddrPrefix addr n) := by
  unfold cidrFromStr
  rw [splitOnByte_append 47 a p hsa, splitOnByte_no_sep 47 p hsp]
  simp [ha, hp]

/-- `CidrSubnet::from_addr_prefix` for the two address widths -/
theorem cidr_from_addr_prefix (addr : Bytes) (n : Nat) (hn : n < 256) :
    (addr.length = 4 → CidrSubnet.fromAddrPrefix addr n = .v4 addr (leadingOnes 32 n)) ∧
    (addr.length = 16 → CidrSubnet.fromAddrPrefix addr n = .v6 addr (leadingOnes 128 n)) := by
  obtain ⟨m4, m6⟩ := prefixMask_leadingOnes n hn
  constructor
  · intro h; simp [CidrSubnet.fromAddrPrefix, h, CidrSubnet.fromV4Prefix, m4]
  · intro h
    have : ¬ addr.length = 4 := by omega
    simp [CidrSubnet.fromAddrPrefix, this, CidrSubnet.fromV6Prefix, m6]

/-- **`SerialNumber::from(u64)`**: the certificate's serialNumber is the INTEGER `u` — the eight
    big-endian octets lose their leading zeros in the writer and an RFC 5280 reader gets `u` back -/
theorem serial_from_u64 (i : CertInputs) (u : Nat) (hu : u < 2 ^ 64)
    (hs : i.p.serial = some (serialOfU64 u)) :
    reqSerial i = u ∧ Spec.asNat (serialNode i.H i.p i.subject) = some u := by
  have hv : ofBe (serialOfU64 u) = u := by
    unfold serialOfU64
    exact ofBe_beBytesFixed 8 u (by omega)
  constructor
  · simp [reqSerial, hs, hv]
  · simp only [serialNode, hs, Asn1.intOfBytes, Spec.asNat]
    rw [Proofs.Leaf.natOfIntContent_ofBytes, hv]

/-- **`CertificateParams::new`**: the names become alternative names one for one and in order —
    an IP address where `IpAddr::from_str` reads one, a DNS name otherwise (then ASCII) — and every
    other parameter is the default -/
theorem params_new_sans (crypto : Bool) (names : List Bytes) (p : CertParams)
    (h : paramsNew crypto names = .ok p) :
    p.sans = names.map sanOfName ∧
    (∀ n ∈ names, parseIp n = none → n.all (fun b => b.toNat < 128) = true) ∧
    p = { defaultParams with
          sans := names.map sanOfName
          keyIdMethod := if crypto then .sha256 else .preSpecified [] } := by
  unfold paramsNew at h
  cases hc : classifySans names with
  | error e => simp [hc] at h
  | ok sans =>
    simp only [hc, Except.ok.injEq] at h
    obtain ⟨hs, hasc⟩ := classifySans_ok names sans hc
    subst h
    exact ⟨hs, hasc, by rw [hs]⟩

/-- … and it refuses exactly when some name is neither an IP literal nor ASCII -/
theorem params_new_refuses (crypto : Bool) (names : List Bytes) (e : Err)
    (h : paramsNew crypto names = .error e) :
    e = .invalidAsn1String ∧
    ∃ n ∈ names, parseIp n = none ∧ n.all (fun b => b.toNat < 128) = false := by
  unfold paramsNew at h
  cases hc : classifySans names with
  | ok sans => simp [hc] at h
  | error e' =>
    simp only [hc, Except.error.injEq] at h
    subst h
    exact classifySans_error names e' hc

/-- **`new_acme_identifier`**: for a 32-octet digest, the critical id-pe-acmeIdentifier extension
    whose value is the OCTET STRING of the digest (RFC 8737 §3); any other length is the announced
    panic -/
theorem acme_identifier (d : Bytes) :
    acmeIdentifier d =
      (if d.length = 32 then some ⟨[1, 3, 6, 1, 5, 5, 7, 1, 31], true, 4 :: 32 :: d⟩ else none) := by
  unfold acmeIdentifier
  by_cases h : d.length = 32
  · simp [h, acmeOid, Asn1.octets, encode, encLen, identByte]
  · simp [h]

/-! non-vacuity: "192.0.2.0/24" (RFC 5280 p. 42), a serial, a mixed name list, a digest -/
example : cidrFromStr "192.0.2.0/24".toUTF8.toList = some (.v4 [192, 0, 2, 0] [255, 255, 255, 0]) := by
  decide +kernel
example : cidrFromStr "2001:db8::/+032/x".toUTF8.toList =
    some (.v6 [0x20, 1, 0xd, 0xb8, 0, 0, 0, 0, 0, 0, 0, 0, 0, 0, 0, 0]
              [255, 255, 255, 255, 0, 0, 0, 0, 0, 0, 0, 0, 0, 0, 0, 0]) := by decide +kernel
example : serialOfU64 258 = [0, 0, 0, 0, 0, 0, 1, 2] := by decide
example : (paramsNew true ["a.example".toUTF8.toList, "::1".toUTF8.toList]).toOption.map (·.sans) =
    some [.dns "a.example".toUTF8.toList, .ip [0, 0, 0, 0, 0, 0, 0, 0, 0, 0, 0, 0, 0, 0, 0, 1]] := by
  decide +kernel

end Rcgen.Theorems.C02
