import Rcgen.Theorems.C01
/-
  C02 — a certificate says exactly what its parameters say.
  Spec: `Spec.c02Clauses` (Spec/Props.lean): the RFC 5280 decoding of the to-be-signed bytes
  equals `Spec.reqExts` / `reqName` / `reqSerial` … computed from the parameters alone.
  This file: finite tables closed over their whole domain, the extension-block rule, and the
  field layout.  `cert_decodes_to_request` (full typed decode) is built on Proofs/X509.
-/
namespace Rcgen.Theorems.C02
open Rcgen Rcgen.Model Rcgen.Spec

/-- the key-usage set selected by a 9-bit mask, in named-bit order -/
def kuSubset (mask : Nat) : List KeyUsage :=
  KeyUsage.all.filter (fun k => (mask >>> k.index) % 2 == 1)

/-- decode the KeyUsage BIT STRING the model writes for a set -/
def decodedKu (kus : List KeyUsage) : Option (List Nat) :=
  match keyUsageValue kus with
  | .prim 0 3 (u :: bs) => some (namedBits u.toNat bs)
  | _ => none

/-- **all 512 key-usage subsets**: the named bits an RFC 5280 decoder reads are exactly the
    requested ones, and the named-bit list is minimal (no trailing zero bit) -/
theorem key_usage_bits_all_subsets :
    (List.range 512).all (fun m =>
      m == 0 ||
      (decodedKu (kuSubset m) == some (reqKeyUsageBits (kuSubset m)) &&
       (match keyUsageValue (kuSubset m) with
        | .prim 0 3 c => namedBitsMinimal c
        | _ => false))) = true := by decide +kernel

/-- the bit pattern depends only on *which* usages occur: duplicates and order are immaterial -/
theorem keyUsageBits_testBit (kus : List KeyUsage) (j : Nat) :
    (keyUsageBits kus).testBit j = kus.any (fun k => k.index + j == 15) := by
  unfold keyUsageBits
  suffices H : ∀ acc, (kus.foldl (fun acc k => acc ||| (32768 >>> k.index)) acc).testBit j =
      (acc.testBit j || kus.any (fun k => k.index + j == 15)) by
    simpa using H 0
  induction kus with
  | nil => intro acc; simp
  | cons k ks ih =>
    intro acc
    simp only [List.foldl_cons, ih, Nat.testBit_or, List.any_cons, Nat.testBit_shiftRight]
    have h32768 : (32768 : Nat) = 2 ^ 15 := by decide
    rw [h32768, Nat.testBit_two_pow]
    have hb : (k.index + j == 15) = decide (15 = k.index + j) := by
      by_cases h : k.index + j = 15
      · simp [h]
      · have h' : ¬ 15 = k.index + j := fun e => h e.symm
        simp [h, h']
    rw [hb]
    cases acc.testBit j <;> simp

theorem keyUsageBits_congr (a b : List KeyUsage) (h : ∀ k, k ∈ a ↔ k ∈ b) :
    keyUsageBits a = keyUsageBits b := by
  apply Nat.eq_of_testBit_eq
  intro j
  rw [keyUsageBits_testBit, keyUsageBits_testBit]
  rw [Bool.eq_iff_iff]
  simp only [List.any_eq_true]
  constructor
  · intro ⟨k, hk, hb⟩; exact ⟨k, (h k).1 hk, hb⟩
  · intro ⟨k, hk, hb⟩; exact ⟨k, (h k).2 hk, hb⟩

/-- so every list of usages (any order, any repetition) is written as its subset is -/
theorem keyUsageValue_congr (a b : List KeyUsage) (h : ∀ k, k ∈ a ↔ k ∈ b) :
    keyUsageValue a = keyUsageValue b := by
  unfold keyUsageValue; rw [keyUsageBits_congr a b h]

/-- first `min n w` bits set, as `w/8` octets -/
def leadingOnes (w n : Nat) : Bytes :=
  (List.range (w / 8)).map (fun i =>
    let k := min n w - min (min n w) (8 * i)     -- bits of the mask left from byte i on
    UInt8.ofNat (if k ≥ 8 then 255 else 256 - 2 ^ (8 - k)))

/-- **all prefix lengths 0..=255, IPv4 and IPv6**: the mask built from a prefix length is the
    first `min(prefix, width)` bits set, whatever the address -/
theorem cidr_mask_all_prefixes :
    (List.range 256).all (fun n =>
      prefixMask 32 n == leadingOnes 32 n && prefixMask 128 n == leadingOnes 128 n) = true := by
  decide +kernel

/-- the CIDR subnet keeps the address bytes as given and pairs them with that mask -/
theorem cidr_from_prefix (a : Bytes) (n : Nat) :
    (CidrSubnet.fromV4Prefix a n).bytes = a ++ prefixMask 32 n ∧
    (CidrSubnet.fromV6Prefix a n).bytes = a ++ prefixMask 128 n := ⟨rfl, rfl⟩

/-- the `[3]` extensions field is present exactly when some extension is requested: any of
    AKI, SAN, key usage, EKU, non-empty name constraints, CRL distribution points, a CA flag
    other than NoCa, or a custom extension -/
theorem extensions_block_iff (p : CertParams) :
    shouldWriteExts p = true ↔
      (p.useAki = true ∨ p.sans ≠ [] ∨ p.keyUsages ≠ [] ∨ p.ekus ≠ [] ∨
       (∃ nc, p.nameConstraints = some nc ∧ nc.isEmpty = false) ∨ p.crlDps ≠ [] ∨
       p.isCa ≠ .noCa ∨ p.customExts ≠ []) := by
  unfold shouldWriteExts
  have hnc : ncRequested p.nameConstraints = true ↔
      (∃ nc, p.nameConstraints = some nc ∧ nc.isEmpty = false) := by
    cases p.nameConstraints with
    | none => simp [ncRequested]
    | some nc => simp [ncRequested]
  simp only [Bool.or_eq_true, Bool.not_eq_true', List.isEmpty_eq_false_iff, bne_iff_ne, ne_eq, hnc]
  constructor
  · intro h
    rcases h with ((((((h | h) | h) | h) | h) | h) | h) | h
    · exact Or.inl h
    · exact Or.inr (Or.inl h)
    · exact Or.inr (Or.inr (Or.inl h))
    · exact Or.inr (Or.inr (Or.inr (Or.inl h)))
    · exact Or.inr (Or.inr (Or.inr (Or.inr (Or.inl h))))
    · exact Or.inr (Or.inr (Or.inr (Or.inr (Or.inr (Or.inl h)))))
    · exact Or.inr (Or.inr (Or.inr (Or.inr (Or.inr (Or.inr (Or.inl h))))))
    · exact Or.inr (Or.inr (Or.inr (Or.inr (Or.inr (Or.inr (Or.inr h))))))
  · intro h
    rcases h with h | h | h | h | h | h | h | h
    · exact Or.inl (Or.inl (Or.inl (Or.inl (Or.inl (Or.inl (Or.inl h))))))
    · exact Or.inl (Or.inl (Or.inl (Or.inl (Or.inl (Or.inl (Or.inr h))))))
    · exact Or.inl (Or.inl (Or.inl (Or.inl (Or.inl (Or.inr h)))))
    · exact Or.inl (Or.inl (Or.inl (Or.inl (Or.inr h))))
    · exact Or.inl (Or.inl (Or.inl (Or.inr h)))
    · exact Or.inl (Or.inl (Or.inr h))
    · exact Or.inl (Or.inr h)
    · exact Or.inr h

/-- and when it is present it holds exactly the extensions `certExtensions` lists, none
    written twice: each writer runs once, in a fixed order -/
theorem extensions_field (H : Hashes) (p : CertParams) (s : PubKey) (i : Issuer) :
    tbsCertificateFields H p s i =
      [ .explicit 0 (.intOfNat 2), serialNode H p s, algIdent i.key.alg,
        writeDistinguishedName i.dn, .seq [writeTime p.notBefore, writeTime p.notAfter],
        writeDistinguishedName p.dn, spkiNode s ] ++
      (if shouldWriteExts p then [.explicit 3 (.seq (certExtensions H p s i))] else []) := rfl

/-- when the block is absent nothing was requested: no extension is silently dropped -/
theorem nothing_dropped (H : Hashes) (p : CertParams) (s : PubKey) (i : Issuer)
    (h : shouldWriteExts p = false) : certExtensions H p s i = [] := by
  unfold shouldWriteExts at h
  simp only [Bool.or_eq_false_iff, Bool.not_eq_false', bne_eq_false_iff_eq] at h
  obtain ⟨⟨⟨⟨⟨⟨⟨h1, h2⟩, h3⟩, h4⟩, h5⟩, h6⟩, h7⟩, h8⟩ := h
  have e2 : p.sans = [] := by simpa using h2
  have e3 : p.keyUsages = [] := by simpa using h3
  have e4 : p.ekus = [] := by simpa using h4
  have e6 : p.crlDps = [] := by simpa using h6
  have e8 : p.customExts = [] := by simpa using h8
  unfold certExtensions sanExt keyUsageExt ekuExt crlDpsExt caExts nameConstraintsExt
  cases hnc : p.nameConstraints with
  | none => simp [h1, e2, e3, e4, e6, h7, e8]
  | some nc =>
    rw [hnc] at h5
    have : nc.isEmpty = true := by simpa [ncRequested] using h5
    simp [h1, e2, e3, e4, e6, h7, e8, this]

/-- the subject public key is written as the RFC SubjectPublicKeyInfo of (algorithm, key bits) -/
theorem spki_is_rfc (k : PubKey) : spkiDer k = rfcSpki k := by
  unfold spkiDer spkiNode rfcSpki
  have := C01.spki_algid_is_rfc_identifier k.alg
  simp only [Asn1.seq, encode, encodeList, Asn1.bitStringOctets, Asn1.bitString,
    bitStringContent_octets, this]

/-! non-vacuity: the case the hand-maintained condition used to miss -/
example : shouldWriteExts { (default : CertParams) with keyUsages := [.digitalSignature] } = true := by
  decide

end Rcgen.Theorems.C02
