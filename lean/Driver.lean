import Driver.Main
