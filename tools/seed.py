#!/usr/bin/env python3
"""Confirm a seeded change and record which checks catch it.

  tools/seed.py confirm <src-dir> <id>     src-dir holds patch.diff, demo.rs, notes.md
        1. scratch worktree of /repo (under /tmp, removed again by `tools/seed.py clean`):
           the demonstration passes on the unchanged tree, fails with the patch, and the
           existing test suite (cargo test --workspace --offline) passes with the patch;
        2. copies the three files to /verif/seeded/<id>/ and writes meta.json.
  tools/seed.py run <id> [Cnn ...]         apply seeded/<id>/patch.diff to /repo, run the quick
        checks named (default: the property of the id, then all the others), undo the patch,
        record the outcome in seeded/<id>/meta.json ("checks").
  tools/seed.py table                      print the detection table (markdown)
  tools/seed.py clean                      remove the scratch worktree and its build output

Nothing here is registered in MANIFEST.json; it is the bench on which the checks are tried.
"""
import json, os, re, shutil, subprocess, sys, time

VERIF = os.path.dirname(os.path.dirname(os.path.abspath(__file__)))
REPO = "/repo"
WT = "/tmp/seedwt"
TGT = "/tmp/seedwt-target"
ENV = dict(os.environ, CARGO_NET_OFFLINE="true", CARGO_TARGET_DIR=TGT)


def sh(cmd, cwd=None, env=None, timeout=3600):
    p = subprocess.run(cmd, shell=True, cwd=cwd, env=env or os.environ, text=True,
                       stdout=subprocess.PIPE, stderr=subprocess.STDOUT, timeout=timeout)
    return p.returncode, p.stdout


def ensure_wt():
    if not os.path.isdir(WT):
        rc, out = sh(f"git -C {REPO} worktree add --detach {WT} HEAD")
        if rc:
            sys.exit(out)
    sh("git checkout -- . && git clean -fdq rcgen/tests rcgen/src rustls-cert-gen", cwd=WT)
    head = sh("git rev-parse HEAD", cwd=REPO)[1].strip()
    sh(f"git checkout -q --detach {head}", cwd=WT)


def cargo_test(extra=""):
    rc, out = sh(f"cargo test --workspace --offline --no-fail-fast {extra} 2>&1", cwd=WT, env=ENV)
    failed = sorted(set(re.findall(r"^test (\S+) \.\.\. FAILED", out, re.M)))
    passed = len(re.findall(r"^test \S+ \.\.\. ok", out, re.M))
    compiled = "error: could not compile" not in out and "error[E" not in out
    # which test binary did each failure come from
    demo_failed = False
    other_failed = []
    cur = ""
    for line in out.splitlines():
        m = re.match(r"\s+Running (\S+)", line)
        if m:
            cur = m.group(1)
        m = re.match(r"^test (\S+) \.\.\. FAILED", line)
        if m:
            if "demo_mutant" in cur:
                demo_failed = True
            else:
                other_failed.append(f"{cur}:{m.group(1)}")
    return dict(rc=rc, compiled=compiled, passed=passed, failed=failed,
                demo_failed=demo_failed, other_failed=other_failed, tail=out[-3000:])


def demo_run(feats):
    """run only the demonstration, under the feature set it asks for"""
    rc, out = sh(f"cargo test --offline -p rcgen {feats} --test demo_mutant 2>&1", cwd=WT, env=ENV)
    failed = sorted(set(re.findall(r"^test (\S+) \.\.\. FAILED", out, re.M)))
    passed = len(re.findall(r"^test \S+ \.\.\. ok", out, re.M))
    compiled = "Running tests/demo_mutant.rs" in out   # the demonstration was built and ran
    return dict(rc=rc, compiled=compiled, passed=passed, failed=failed, tail=out[-3000:])


def confirm(src, sid):
    prop = sid.split("-")[0]
    ensure_wt()
    demo = open(os.path.join(src, "demo.rs")).read()
    if os.environ.get("SEED_FEATS") is not None:
        feats = os.environ["SEED_FEATS"]
    elif "aws_lc_rs" in demo or "aws-lc-rs" in demo:
        feats = "--no-default-features --features aws_lc_rs,pem,x509-parser"
    elif "x509_parser" in demo or "x509-parser" in demo or "from_ca_cert" in demo or "CertificateSigningRequestParams" in demo:
        feats = "--features x509-parser"
    else:
        feats = ""
    demo_path = os.path.join(WT, "rcgen/tests/demo_mutant.rs")
    # unchanged tree: the demonstration passes
    shutil.copy(os.path.join(src, "demo.rs"), demo_path)
    b = demo_run(feats)
    base = dict(b, other_failed=[], demo_failed=bool(b["failed"]))
    ok_base = b["compiled"] and not b["failed"] and b["rc"] == 0 and b["passed"] > 0
    rc, out = sh(f"git apply {os.path.abspath(os.path.join(src, 'patch.diff'))}", cwd=WT)
    if rc:
        print("patch does not apply:", out)
        return False
    # with the patch: the demonstration fails ...
    d = demo_run(feats)
    # ... and the existing suite, without the demonstration file, passes (both feature sets)
    os.remove(demo_path)
    m1 = cargo_test("")
    m2 = cargo_test("--features rcgen/x509-parser")
    mut = dict(compiled=d["compiled"] and m1["compiled"] and m2["compiled"], passed=m1["passed"] + m2["passed"],
               failed=d["failed"], demo_failed=bool(d["failed"]) and d["compiled"],
               other_failed=m1["failed"] + m2["failed"] + ([] if m1["rc"] == 0 and m2["rc"] == 0 else ["suite rc != 0"] if not (m1["failed"] + m2["failed"]) else []),
               tail=d["tail"] if not d["failed"] else (m1["tail"] if m1["rc"] else m2["tail"]))
    ok_mut = mut["compiled"] and mut["demo_failed"] and not mut["other_failed"]
    files = sh("git diff --stat", cwd=WT)[1]
    sh("git checkout -- . && rm -f rcgen/tests/demo_mutant.rs", cwd=WT)
    print(f"{sid}: unchanged tree: compiled={base['compiled']} passed={base['passed']} failed={base['failed']}")
    print(f"{sid}: with patch:     compiled={mut['compiled']} passed={mut['passed']} failed={mut['failed']} "
          f"other_failed={mut['other_failed']}")
    if not (ok_base and ok_mut):
        print(f"{sid}: NOT CONFIRMED")
        print(base["tail"][-1500:] if not ok_base else mut["tail"][-1500:])
        return False
    dst = os.path.join(VERIF, "seeded", sid)
    os.makedirs(dst, exist_ok=True)
    for f in ("patch.diff", "demo.rs", "notes.md"):
        if os.path.exists(os.path.join(src, f)):
            shutil.copy(os.path.join(src, f), os.path.join(dst, f))
    meta = dict(
        id=sid, property=prop,
        repo_head=sh("git rev-parse HEAD", cwd=REPO)[1].strip(),
        source="fresh sub-agent given only the property text and a scratch worktree",
        needs_to_manifest="",  # filled in by hand from notes.md
        confirmed=dict(
            cmd=f"demo: cargo test --offline -p rcgen {feats} --test demo_mutant; suite: cargo test --workspace --offline --no-fail-fast [--features rcgen/x509-parser]",
            unchanged_tree=dict(passed=base["passed"], failed=base["failed"]),
            with_patch=dict(passed=mut["passed"], failed=mut["failed"],
                            existing_tests_failed=mut["other_failed"]),
            diffstat=files.strip().splitlines()[-1] if files.strip() else ""),
        checks={})
    mp = os.path.join(dst, "meta.json")
    if os.path.exists(mp):
        old = json.load(open(mp))
        meta["checks"] = old.get("checks", {})
        meta["needs_to_manifest"] = old.get("needs_to_manifest", "")
    json.dump(meta, open(mp, "w"), indent=1)
    print(f"{sid}: confirmed -> {dst}")
    return True


def all_props():
    return [f"C{i:02d}" for i in range(1, 21)]


def run(sid, props):
    dst = os.path.join(VERIF, "seeded", sid)
    meta = json.load(open(os.path.join(dst, "meta.json")))
    if not props:
        props = [meta["property"]] + [p for p in all_props() if p != meta["property"]]
    rc, out = sh("git status --porcelain", cwd=REPO)
    if out.strip():
        sys.exit("/repo is not clean:\n" + out)
    rc, out = sh(f"git apply {os.path.join(dst, 'patch.diff')}", cwd=REPO)
    if rc:
        # the code around the change has moved since the change was written (later fix: commits):
        # merge it in; a change whose own lines were rewritten does not apply any more
        rc, out = sh(f"git apply --3way {os.path.join(dst, 'patch.diff')}", cwd=REPO)
        conflicted = sh("git diff --name-only --diff-filter=U", cwd=REPO)[1].strip()
        sh("git reset -q", cwd=REPO)
        if rc or conflicted:
            sh("git checkout -- .", cwd=REPO)
            meta["stale_at"] = sh("git rev-parse --short HEAD", cwd=REPO)[1].strip()
            json.dump(meta, open(os.path.join(dst, "meta.json"), "w"), indent=1)
            sys.exit("patch does not apply to /repo at this head (recorded in meta.json as stale_at): " + out[-300:])
    try:
        for p in props:
            t0 = time.time()
            rc, out = sh(f"./check {p} --tier quick", cwd=VERIF)
            viol = [l for l in out.splitlines() if l.startswith("VIOLATION")]
            keys = []
            for v in viol:
                m = re.search(r"replay=(\S+)", v)
                if m and os.path.exists(m.group(1)):
                    for l in open(m.group(1)).read().splitlines()[:4]:
                        if l.startswith("key: "):
                            keys.append(l[5:])
            meta["checks"][p] = dict(
                exit=rc, detected=bool(rc != 0 and viol), violations=len(viol),
                no_failing_input=sum(1 for v in viol if v.rstrip().endswith("no-failing-input-found")),
                first=viol[0] if viol else "", keys=sorted(set(k for k in keys if k))[:8],
                seconds=round(time.time() - t0, 1))
            print(f"{sid} {p}: exit={rc} violations={len(viol)} "
                  f"{'(build/other failure) ' if rc and not viol else ''}{viol[0] if viol else ''}")
            if rc and not viol:
                print(out[-1500:])
    finally:
        sh("git checkout -- .", cwd=REPO)
        json.dump(meta, open(os.path.join(dst, "meta.json"), "w"), indent=1)
    st = sh("git status --porcelain", cwd=REPO)[1]
    if st.strip():
        print("WARNING /repo not clean after undo:\n" + st)


def table():
    root = os.path.join(VERIF, "seeded")
    print("| change | property | what it needs | caught by own check | also caught by |")
    print("|---|---|---|---|---|")
    for sid in sorted(os.listdir(root)):
        mp = os.path.join(root, sid, "meta.json")
        if not os.path.exists(mp):
            continue
        m = json.load(open(mp))
        own = m["checks"].get(m["property"], {})
        others = [p for p, c in sorted(m["checks"].items()) if c.get("detected") and p != m["property"]]
        if m.get("stale_at") and not m.get("neutralised_by"):
            print(f"| {sid} | {m['property']} | {m.get('needs_to_manifest','')} | yes at {m['repo_head'][:7]}; the lines it changes were rewritten by later fix: commits (does not apply at {m['stale_at']}) | |")
            continue
        if m.get("neutralised_by"):
            print(f"| {sid} | {m['property']} | {m.get('needs_to_manifest','')} | n/a: neutralised by {m['neutralised_by'].split(' ')[0]} | |")
            continue
        o = "not run" if not own else ("yes" + (" (no-failing-input-found)" if own.get("no_failing_input") == own.get("violations") and own.get("violations") else "") if own.get("detected") else "NO")
        print(f"| {sid} | {m['property']} | {m.get('needs_to_manifest','')} | {o} | {' '.join(others)} |")


def clean():
    sh(f"git -C {REPO} worktree remove --force {WT}")
    shutil.rmtree(TGT, ignore_errors=True)
    sh(f"git -C {REPO} worktree prune")


if __name__ == "__main__":
    a = sys.argv[1:]
    if a[:1] == ["confirm"]:
        sys.exit(0 if confirm(a[1], a[2]) else 1)
    elif a[:1] == ["run"]:
        run(a[1], a[2:])
    elif a[:1] == ["table"]:
        table()
    elif a[:1] == ["clean"]:
        clean()
    else:
        print(__doc__)
