#!/usr/bin/env python3
"""regenerate MANIFEST.json from registry.json + properties.jsonl"""
import json, os
ROOT = os.path.dirname(os.path.dirname(os.path.abspath(__file__)))
reg = json.load(open(os.path.join(ROOT, "registry.json")))
props = [json.loads(l)["id"] for l in open(os.path.join(ROOT, "properties.jsonl"))]
checks, na = [], []
for p in props:
    e = reg["properties"].get(p)
    if e is None or e.get("unclaimed"):
        na.append({"property_id": p, "reason": (e or {}).get("unclaimed", "check not built yet (framework under construction; will be claimed)")})
        continue
    checks.append({
        "property_id": p,
        "quick_cmd": "./check %s --tier quick" % p,
        "thorough_cmd": "./check %s --tier thorough" % p,
        "evidence_file": "/verif/evidence/%s.json" % p,
        "replay_cmd_template": "./check %s --replay {path}" % p,
        "engine": "lean-model+correspondence",
        "level_claimed": {"category": e.get("level", "proof"), "text": e["level_text"], "design_ref": "DESIGN.md §6 " + p},
        "level_note": e["level_note"],
        "technique": e.get("technique", "Lean 4 theorems about a hand-written model + differential correspondence check against /repo"),
    })
m = {
    "version": 1,
    "setup_cmd": "./setup.sh",
    "hooks": {
        "guard": "rcgen_verif",
        "enable": "none needed: the harness uses only rcgen's public API (RemoteKeyPair for signer capture/fault injection); no hook commits exist in /repo",
        "baseline_off_cmd": "cd /repo && cargo test --workspace --no-fail-fast --offline",
        "source_commits": [],
        "add_only": True,
    },
    "engines": [{
        "name": "lean-model+correspondence",
        "path": "/verif/check",
        "serves_properties": [c["property_id"] for c in checks],
        "kind_free_text": "Lean 4 model (lean/Rcgen/Model), executable RFC specification (lean/Rcgen/Spec), property theorems (lean/Rcgen/Theorems), compiled model driver (lean/Driver), Rust correspondence harness (harness/) calling /repo's rcgen in-process",
    }],
    "checks": checks,
    "not_applicable": na,
    "notes": "See DESIGN.md. Every check rebuilds the harness against /repo's working tree (cargo path dependency) and re-checks the property's Lean theorems (lake build + #print axioms audit).",
}
json.dump(m, open(os.path.join(ROOT, "MANIFEST.json"), "w"), indent=1)
print("claimed:", [c["property_id"] for c in checks])
