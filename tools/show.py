import json,sys
d=json.load(sys.stdin)
print({k:(v if k not in('samples','disagreements','violations','rule','stats') else (len(v) if k!='stats' else None)) for k,v in d.items()})
print({k:v for k,v in d['stats'].items() if not k.startswith('field_on')})
n=int(sys.argv[1]) if len(sys.argv)>1 else 3
for x in d['disagreements'][:n]: print('DISAGREE',x['key'],'\n',x['replay'][:int(sys.argv[2]) if len(sys.argv)>2 else 1500],'\n')
for x in d['violations'][:40]: print('VIOL',x['key'])
for x in d['violations'][:n]: print('VIOLATION',x['key'],'\n',x['replay'][:int(sys.argv[2]) if len(sys.argv)>2 else 1500],'\n')
