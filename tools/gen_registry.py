#!/usr/bin/env python3
"""registry.json = per-property module, theorem list (scanned from the theorem file), builds,
and the texts that go into MANIFEST.json"""
import json, os, re
ROOT = os.path.dirname(os.path.dirname(os.path.abspath(__file__)))
TEXT = json.load(open(os.path.join(ROOT, "tools", "registry_text.json")))
reg = {"properties": {}}
for prop, t in TEXT.items():
    if t.get("unclaimed"):
        reg["properties"][prop] = {"unclaimed": t["unclaimed"]}
        continue
    f = os.path.join(ROOT, "lean", "Rcgen", "Theorems", prop + ".lean")
    src = open(f).read()
    names = re.findall(r"^theorem\s+([A-Za-z0-9_'.]+)", src, re.M)
    ns = "Rcgen.Theorems." + prop
    e = {
        "module": ns,
        "theorems": [ns + "." + n for n in names],
        "features": t.get("features", ["ring"]),
        "features_thorough": t.get("features_thorough", t.get("features", ["ring"])),
        "level": t.get("level", "proof"),
        "exhaustive_claim": False,
        "trusted": t.get("trusted", []),
        "assumptions": t.get("assumptions", []),
        "level_text": t["level_text"],
        "level_note": t["level_note"],
        "technique": t["technique"],
    }
    reg["properties"][prop] = e
json.dump(reg, open(os.path.join(ROOT, "registry.json"), "w"), indent=1)
print({p: len(e.get("theorems", [])) for p, e in reg["properties"].items()})
