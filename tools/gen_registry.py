#!/usr/bin/env python3
"""registry.json = per-property module, theorem list (scanned from the theorem file), builds,
and the texts that go into MANIFEST.json"""
import json, os, re
ROOT = os.path.dirname(os.path.dirname(os.path.abspath(__file__)))
TEXT = json.load(open(os.path.join(ROOT, "tools", "registry_text.json")))
reg = {"properties": {}}
for prop, t in TEXT.items():
    if t.get("unclaimed"):
        reg["properties"][prop] = {"unclaimed": t["unclaimed"]}
        continue
    # Theorems/Cnn.lean, plus Theorems/Cnn_<part>.lean (same namespace; used where the property's
    # theorem file sits low in the import graph and later results have to live above it)
    tdir = os.path.join(ROOT, "lean", "Rcgen", "Theorems")
    extra = sorted(x[:-5] for x in os.listdir(tdir) if x.startswith(prop + "_") and x.endswith(".lean"))
    ns = "Rcgen.Theorems." + prop
    names = []
    for stem in [prop] + extra:
        src = open(os.path.join(tdir, stem + ".lean")).read()
        names += re.findall(r"^theorem\s+([A-Za-z0-9_'.]+)", src, re.M)
    e = {
        "module": ns,
        "extra_modules": ["Rcgen.Theorems." + x for x in extra],
        "theorems": [ns + "." + n for n in names],
        "features": t.get("features", ["ring"]),
        "features_thorough": t.get("features_thorough", t.get("features", ["ring"])),
        "level": t.get("level", "proof"),
        "exhaustive_claim": False,
        "trusted": t.get("trusted", []),
        "assumptions": t.get("assumptions", []),
        "level_text": t["level_text"],
        "level_note": t["level_note"],
        "technique": t["technique"],
    }
    reg["properties"][prop] = e
json.dump(reg, open(os.path.join(ROOT, "registry.json"), "w"), indent=1)
print({p: len(e.get("theorems", [])) for p, e in reg["properties"].items()})
