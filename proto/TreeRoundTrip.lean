import Leanprobe.Tree
namespace P

inductive Asn1 where
  | prim (cls num : Nat) (content : Bytes)
  | cons (cls num : Nat) (children : List Asn1)

def identByte (cls : Nat) (c : Bool) (num : Nat) : UInt8 :=
  UInt8.ofNat (cls * 64 + (if c then 32 else 0) + num)

mutual
def encode : Asn1 → Bytes
  | .prim cls num c => identByte cls false num :: (encLen c.length ++ c)
  | .cons cls num ch => identByte cls true num :: (encLen (encodeList ch).length ++ encodeList ch)
def encodeList : List Asn1 → Bytes
  | [] => []
  | t :: ts => encode t ++ encodeList ts
end

mutual
def Asn1.WF : Asn1 → Prop
  | .prim cls num c => cls < 4 ∧ num < 31 ∧ c.length < 256 ^ 126
  | .cons cls num ch => cls < 4 ∧ num < 31 ∧ (encodeList ch).length < 256 ^ 126 ∧ WFList ch
def WFList : List Asn1 → Prop
  | [] => True
  | t :: ts => t.WF ∧ WFList ts
end

mutual
def decode : Nat → Bytes → Option (Asn1 × Bytes)
  | 0, _ => none
  | _, [] => none
  | fuel + 1, b :: rest =>
    let v := b.toNat
    let cls := v / 64
    let c := (v / 32) % 2 == 1
    let num := v % 32
    if num = 31 then none else
    match decLen rest with
    | none => none
    | some (n, rest') =>
      if rest'.length < n then none else
      let content := rest'.take n
      let after := rest'.drop n
      if c then
        match decodeList fuel content with
        | none => none
        | some ch => some (.cons cls num ch, after)
      else some (.prim cls num content, after)
def decodeList : Nat → Bytes → Option (List Asn1)
  | 0, _ => none
  | _, [] => some []
  | fuel + 1, bs@(_ :: _) =>
    match decode fuel bs with
    | none => none
    | some (t, rest) =>
      match decodeList fuel rest with
      | none => none
      | some ts => some (t :: ts)
end

mutual
def Asn1.size : Asn1 → Nat
  | .prim _ _ _ => 1
  | .cons _ _ ch => 1 + sizeList ch
def sizeList : List Asn1 → Nat
  | [] => 1
  | t :: ts => 1 + t.size + sizeList ts
end

theorem ident_toNat (cls num : Nat) (c : Bool) (h1 : cls < 4) (h2 : num < 31) :
    (identByte cls c num).toNat = cls * 64 + (if c then 32 else 0) + num := by
  unfold identByte; simp [UInt8.toNat_ofNat']; cases c <;> simp <;> omega

theorem sizeList_pos (ts : List Asn1) : 1 ≤ sizeList ts := by
  cases ts <;> simp [sizeList] <;> omega

theorem encode_ne_nil (t : Asn1) : encode t ≠ [] := by
  cases t <;> simp [encode]

mutual
theorem decode_encode (t : Asn1) (h : t.WF) (fuel : Nat) (hf : t.size < fuel) (rest : Bytes) :
    decode fuel (encode t ++ rest) = some (t, rest) := by
  match t, fuel with
  | _, 0 => omega
  | .prim cls num c, fuel + 1 =>
    simp only [Asn1.WF] at h
    obtain ⟨h1, h2, h3⟩ := h
    simp only [encode, List.cons_append, List.append_assoc, decode]
    rw [ident_toNat _ _ _ h1 h2, decLen_encLen _ h3]
    have e1 : (cls * 64 + (if false = true then 32 else 0) + num) % 32 = num := by simp; omega
    have e2 : (cls * 64 + (if false = true then 32 else 0) + num) / 64 = cls := by simp; omega
    have e3 : ((cls * 64 + (if false = true then 32 else 0) + num) / 32 % 2 == 1) = false := by
      simp; omega
    simp only [e1, e2, e3]
    have : ¬ num = 31 := by omega
    simp [this]
  | .cons cls num ch, fuel + 1 =>
    simp only [Asn1.WF] at h
    obtain ⟨h1, h2, h3, h4⟩ := h
    have ih := decodeList_encodeList ch h4 fuel (by simp [Asn1.size] at hf; omega)
    simp only [encode, List.cons_append, List.append_assoc, decode]
    rw [ident_toNat _ _ _ h1 h2, decLen_encLen _ h3]
    simp only [ite_true]
    have e1 : (cls * 64 + 32 + num) % 32 = num := by omega
    have e2 : (cls * 64 + 32 + num) / 64 = cls := by omega
    have e3 : (cls * 64 + 32 + num) / 32 % 2 = 1 := by omega
    have hn : ¬ num = 31 := by omega
    simp [e1, e2, e3, hn, ih]
theorem decodeList_encodeList (ts : List Asn1) (h : WFList ts) (fuel : Nat) (hf : sizeList ts ≤ fuel) :
    decodeList fuel (encodeList ts) = some ts := by
  match ts, fuel with
  | [], 0 => simp [sizeList] at hf
  | [], fuel + 1 => simp [encodeList, decodeList]
  | t :: ts, 0 => simp [sizeList] at hf
  | t :: ts, fuel + 1 =>
    simp only [WFList] at h
    simp only [sizeList] at hf
    simp only [encodeList]
    have hne : encode t ++ encodeList ts ≠ [] := by simp [encode_ne_nil]
    cases hb : encode t ++ encodeList ts with
    | nil => exact absurd hb hne
    | cons b bs =>
      simp only [decodeList]
      rw [← hb, decode_encode t h.1 fuel (by have := sizeList_pos ts; omega) (encodeList ts)]
      simp only
      rw [decodeList_encodeList ts h.2 fuel (by omega)]
end

#print axioms decode_encode
end P
