import Leanprobe.Basic
namespace P

theorem beBytes_length_pos {n : Nat} (h : n ≠ 0) : (beBytes n) ≠ [] := by
  unfold beBytes; simp [h]

theorem beBytes_head_ne_zero (n : Nat) : (beBytes n).head? ≠ some 0 := by
  induction n using Nat.strongRecOn with
  | _ n ih =>
    unfold beBytes
    split
    · simp
    · rename_i h
      by_cases h2 : n / 256 = 0
      · have : beBytes (n/256) = [] := by unfold beBytes; simp [h2]
        rw [this]; simp
        intro hc
        have : n % 256 ≠ 0 := by omega
        have h3 : (UInt8.ofNat (n % 256)).toNat = n % 256 := by simp [UInt8.toNat_ofNat']
        rw [hc] at h3; simp at h3; omega
      · have := ih (n/256) (by omega)
        have hne := beBytes_length_pos h2
        cases hb : beBytes (n/256) with
        | nil => exact absurd hb hne
        | cons a as => rw [hb] at this; simpa using this

theorem beBytes_length_le (n : Nat) (k : Nat) (h : n < 256 ^ k) : (beBytes n).length ≤ k := by
  induction k generalizing n with
  | zero => simp at h; subst h; unfold beBytes; simp
  | succ k ih =>
    unfold beBytes; split
    · simp
    · simp; apply ih; rw [Nat.pow_succ] at h; omega

theorem decLen_encLen (n : Nat) (hn : n < 256 ^ 126) (rest : Bytes) :
    decLen (encLen n ++ rest) = some (n, rest) := by
  unfold encLen
  split
  · rename_i h
    simp [decLen, UInt8.toNat_ofNat']
    have : n % 256 = n := by omega
    simp [this, h]
  · rename_i h
    have hl := beBytes_length_le n 126 hn
    have hne : beBytes n ≠ [] := beBytes_length_pos (by omega)
    have hpos : 0 < (beBytes n).length := List.length_pos_iff.mpr hne
    simp only [List.cons_append, decLen]
    have hb : (UInt8.ofNat (128 + (beBytes n).length)).toNat = 128 + (beBytes n).length := by
      simp [UInt8.toNat_ofNat']; omega
    rw [hb]
    have h1 : ¬ (128 + (beBytes n).length < 128) := by omega
    simp only [h1, ite_false]
    have hk : 128 + (beBytes n).length - 128 = (beBytes n).length := by omega
    simp only [hk]
    have h2 : ¬ ((beBytes n).length = 0 ∨ (beBytes n).length = 127) := by omega
    simp only [h2, ite_false]
    simp only [List.length_append, List.take_left', List.drop_left']
    have h3 : ¬ ((beBytes n).length + rest.length < (beBytes n).length) := by omega
    simp [h3, ofBe_beBytes, beBytes_head_ne_zero, h]

end P
open P in
#print axioms P.decLen_encLen
