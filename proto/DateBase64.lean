namespace D
def isLeap (y : Int) : Bool := (y % 4 == 0 && y % 100 != 0) || y % 400 == 0
def daysInYear (y : Int) : Int := if isLeap y then 366 else 365
def daysBeforeYear (y : Int) : Int := 365 * (y - 1) + (y - 1) / 4 - (y - 1) / 100 + (y - 1) / 400
def dayNumber (y : Int) (o : Int) : Int := daysBeforeYear y + o - 1

theorem dby_succ (y : Int) : daysBeforeYear (y + 1) = daysBeforeYear y + daysInYear y := by
  unfold daysBeforeYear daysInYear isLeap
  split <;> rename_i h <;> simp at h <;> omega

theorem dby_mono (y1 y2 : Int) (h : y1 < y2) : daysBeforeYear y1 + 365 ≤ daysBeforeYear y2 := by
  unfold daysBeforeYear; omega

theorem dayNumber_inj (y1 o1 y2 o2 : Int) (h1 : 1 ≤ o1 ∧ o1 ≤ daysInYear y1) (h2 : 1 ≤ o2 ∧ o2 ≤ daysInYear y2)
    (h : dayNumber y1 o1 = dayNumber y2 o2) : y1 = y2 ∧ o1 = o2 := by
  have key : ∀ a b : Int, a < b → daysBeforeYear a + daysInYear a ≤ daysBeforeYear b := by
    intro a b hab
    have := dby_succ a
    by_cases hb : b = a + 1
    · subst hb; omega
    · have := dby_mono (a+1) b (by omega); omega
  unfold dayNumber at h
  rcases Int.lt_trichotomy y1 y2 with hlt | heq | hgt
  · have := key y1 y2 hlt; omega
  · subst heq; omega
  · have := key y2 y1 hgt; omega
#print axioms dayNumber_inj

-- base64 chunk
def enc3 (a b c : Nat) : Nat × Nat × Nat × Nat := (a / 4, (a % 4) * 16 + b / 16, (b % 16) * 4 + c / 64, c % 64)
def dec4 (s0 s1 s2 s3 : Nat) : Nat × Nat × Nat := (s0 * 4 + s1 / 16, (s1 % 16) * 16 + s2 / 4, (s2 % 4) * 64 + s3)
theorem dec_enc (a b c : Nat) (ha : a < 256) (hb : b < 256) (hc : c < 256) :
    let (s0, s1, s2, s3) := enc3 a b c; dec4 s0 s1 s2 s3 = (a, b, c) := by
  simp [enc3, dec4]; omega
end D
