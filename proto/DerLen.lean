namespace P

abbrev Bytes := List UInt8

/-- big-endian minimal bytes of a positive Nat (empty for 0) -/
def beBytes (n : Nat) : Bytes :=
  if h : n = 0 then [] else beBytes (n / 256) ++ [UInt8.ofNat (n % 256)]
decreasing_by omega

def ofBe (bs : Bytes) : Nat := bs.foldl (fun acc b => acc * 256 + b.toNat) 0

def encLen (n : Nat) : Bytes :=
  if n < 128 then [UInt8.ofNat n]
  else let bs := beBytes n; UInt8.ofNat (128 + bs.length) :: bs

def decLen : Bytes → Option (Nat × Bytes)
  | [] => none
  | b :: rest =>
    if b.toNat < 128 then some (b.toNat, rest)
    else
      let k := b.toNat - 128
      if k = 0 ∨ k = 127 then none
      else if rest.length < k then none
      else
        let bs := rest.take k
        let n := ofBe bs
        -- minimality: first byte nonzero and n ≥ 128
        if bs.head? = some 0 then none
        else if n < 128 then none
        else some (n, rest.drop k)

theorem ofBe_append_single (bs : Bytes) (b : UInt8) : ofBe (bs ++ [b]) = ofBe bs * 256 + b.toNat := by
  simp [ofBe, List.foldl_append]

theorem ofBe_beBytes (n : Nat) : ofBe (beBytes n) = n := by
  induction n using Nat.strongRecOn with
  | _ n ih =>
    unfold beBytes
    split
    · simp [ofBe, *]
    · rw [ofBe_append_single, ih (n/256) (by omega)]
      simp [UInt8.toNat_ofNat']; omega

#eval encLen 300
#eval decLen (encLen 300 ++ [1,2])
end P
